"""C17 — open blk files stay bounded by the files overlapping the current height."""
import resource
from .. import bb, chain as K, gen_chain as GC

NAMESPACE = "Rbp.Props.C17"
REQUIRED = ["open_invariant", "disjoint_constant", "open_invariant_run"]
LEAN_FILES = ["Rbp/Model/Driver.lean", "Rbp/Model/Run.lean", "Rbp/Proofs/OpenFiles.lean"]
RULE = ("black-box runs with -v: the `Opening <blk file>` / `Closing <blk file>` debug lines of the real binary form its open/close trace, compared event for event with the model's trace; layouts with 1..40 blk files (quick) whose height spans are "
        "disjoint, overlapping or interleaved, ranges starting/stopping in the middle of a file, stale blocks with data stored in the active files above their active heights; on the real trace the invariant `open => a block of that file is still to come` and, for disjoint spans, `at most one file open` are checked directly; "
        "thorough adds 300..1200 files with disjoint spans under `ulimit -n` set a few above the single-file calibration. non-trivial = more than one blk file; distinct = distinct scenarios")
ASSUMPTIONS = ["dropping the BufReader<File> releases the descriptor (runtime behaviour, not modelled; covered by the ulimit runs of the thorough tier)"]

CMP = [bb.cmp_exit, bb.cmp_events, bb.cmp_names]


def spans_layout(r, coin, blocks, mode, nfiles):
    """assign heights to files according to `mode`; returns scenario"""
    s = K.Scenario(coin=coin, callback=r.choice(["csvdump", "opreturn", "balances"]))
    n = len(blocks)
    if mode == "disjoint":
        cuts = sorted(r.sample(range(1, n), min(nfiles - 1, n - 1))) if n > 1 else []
        assign, f = [], 0
        for h in range(n):
            if cuts and h == cuts[0]:
                cuts.pop(0)
                f += 1
            assign.append(f)
    elif mode == "interleaved":
        assign = [h % nfiles for h in range(n)]
    elif mode == "overlap":
        assign = [min(nfiles - 1, max(0, h * nfiles // n + r.choice([0, 0, 1, -1]))) for h in range(n)]
    else:
        assign = [r.randrange(nfiles) for _ in range(n)]
    # physical file numbers need not be ordered like the spans
    numbers = r.sample(range(0, 5000), nfiles)
    pos = {f: 0 for f in range(nfiles)}
    # blocks are appended to a file in the order they ARRIVE, which is not always the height order (the top blocks of a file are often
    # swapped): the highest block of a file need not be the one at the greatest offset
    order = list(range(n))
    if r.random() < 0.6:
        for j in range(n - 1):
            if r.random() < 0.35:
                order[j], order[j + 1] = order[j + 1], order[j]
    for h in order:
        b = blocks[h]
        f = assign[h]
        name = K.blkname(numbers[f])
        raw = b.enc()
        off = s.place_block(name, pos[f], raw)
        pos[f] = off + len(raw)
        s.kvs.append(K.record(b.hash(), h, K.ACTIVE, len(b.txs), numbers[f], off, b.header(), undo=1))
    # stale (never connected) blocks with data stored in the active files, at heights above everything active in that file:
    # they are not part of the chain, so they must not keep the file open
    if r.random() < 0.5:
        for f in r.sample(range(nfiles), min(nfiles, r.randrange(1, 4))):
            hs = [h for h in range(n) if assign[h] == f]
            if not hs:
                continue
            h = min(n - 1, max(hs) + r.randrange(1, 4))
            if h < 1:
                continue
            cb = K.Tx([(b"\0" * 32, 0xffffffff, bytes([3, h & 255, 55]), 0xffffffff)], [(1, GC.spk(r, coin, "p2pkh"))])
            sb = K.Block([cb], prev=blocks[h - 1].hash(), time=r.randrange(1, 1 << 31), nonce=r.randrange(1 << 32))
            name = K.blkname(numbers[f])
            raw = sb.enc()
            off = s.place_block(name, pos[f], raw)
            pos[f] = off + len(raw)
            s.kvs.append(K.record(sb.hash(), h, K.VALID_TRANSACTIONS | K.HAVE_DATA, 1, numbers[f], off, sb.header()))
    s.verbose = 1
    s.meta = {"mode": mode, "nfiles": nfiles, "n": n}
    s._assign = [numbers[f] for f in assign]
    return s


def check_trace(ctx, s, res, m):
    """invariants on the implementation's own trace"""
    assign = s._assign
    lo = s.start
    delivered = m["delivered"]
    if res.exit != 0 or not delivered:
        return
    maxh = {}
    for h, f in enumerate(assign):
        maxh[f] = max(maxh.get(f, -1), h)
    ev = res.events()
    # replay: each delivered height opens its file if closed, then closes it if h >= max height of the file
    open_now, peak, k = set(), 0, 0
    for h in delivered:
        f = assign[h]
        if f not in open_now:
            if k < len(ev) and ev[k] == ("open", f):
                open_now.add(f)
                k += 1
            else:
                ctx.disagree("trace-invariant", bb.describe(s), {"event": ev[k] if k < len(ev) else None, "at_height": h}, {"expected": ("open", f)}, True, {"scenario": bb.scenario_dump(s), "observable": "reopen-when-needed"})
                return
        peak = max(peak, len(open_now))
        # the trace carries no heights: a close event is attributed to this height only when the file's highest block
        # has now been delivered (the point at which the property demands it)
        if h >= maxh[f] and k < len(ev) and ev[k] == ("close", f):
            open_now.discard(f)
            k += 1
        # invariant: every file still open holds a block of a height yet to come
        for g in open_now:
            if maxh[g] <= h:
                ctx.disagree("trace-invariant", bb.describe(s), {"open_after_height": h, "file": g, "max_height_of_file": maxh[g]}, {"expected": "closed once its highest block was delivered"}, True, {"scenario": bb.scenario_dump(s), "observable": "closed-after-last-block"})
                return
    if s.meta["mode"] == "disjoint" and peak > 1:
        ctx.disagree("trace-invariant", bb.describe(s), {"peak_open": peak}, {"expected": "<= 1 for disjoint spans"}, True, {"scenario": bb.scenario_dump(s), "observable": "constant-descriptors"})
    ctx.dist["peak-open=%d" % peak] += 1


def correspondence(ctx):
    r = ctx.sub_rnd("c17")
    scns = []
    for i in range(ctx.n(60, 400)):
        coin = ["bitcoin", "litecoin"][i % 2]
        n = r.randrange(2, 30)
        blocks = GC.gen_chain(r, coin, n, max_txs=1, max_io=1, segwit=False)
        mode = ["disjoint", "disjoint", "interleaved", "overlap", "random"][i % 5]
        nfiles = r.randrange(1, min(n, 12) + 1)
        s = spans_layout(r, coin, blocks, mode, nfiles)
        if r.random() < 0.5:
            s.start = r.randrange(0, n)
            s.stop = r.choice([None, s.start + 1 + r.randrange(n)])
        s.meta["i"] = i
        scns.append(s)
    impl, model = bb.check(ctx, "spans", scns, CMP, nontrivial=lambda s, m: s.meta["nfiles"] > 1)
    for s, res, m in zip(scns, impl, model):
        check_trace(ctx, s, res, m)
    if ctx.thorough():
        descriptor_limit_runs(ctx, r)


def _limit(n):
    def f():
        resource.setrlimit(resource.RLIMIT_NOFILE, (n, n))
    return f


def descriptor_limit_runs(ctx, r):
    coin = "bitcoin"
    for nfiles in (300, 1200):
        blocks = GC.gen_chain(r, coin, nfiles, max_txs=0, max_io=1, segwit=False)
        single = K.Scenario(coin=coin, callback="balances")
        GC.simple_layout(single, blocks)
        # calibration: smallest limit with which the single-file layout succeeds
        need = None
        for lim in range(8, 64):
            if single.run_impl(preexec=_limit(lim)).exit == 0:
                need = lim
                break
        s = spans_layout(r, coin, blocks, "disjoint", nfiles)
        s.callback, s.verbose = "balances", 0
        res = s.run_impl(preexec=_limit(need + 3))
        ctx.mark(("ulimit", nfiles), True)
        ctx.families["ulimit"] += 1
        ctx.notes.append("ulimit run: %d files, calibration %s, limit %s, exit %s" % (nfiles, need, need + 3, res.exit))
        if res.exit != 0:
            ctx.disagree("ulimit", bb.describe(s), {"exit": res.exit, "stderr": res.stderr.decode(errors="replace")[-300:], "limit": need + 3}, {"expected": "exit 0 with a constant number of descriptors"}, True, {"observable": "descriptor-bound"})


def replay(ctx, rep, corpus=None):
    bb.replay_scenario(ctx, rep, CMP)
