"""C04 — only active-chain blocks are delivered; stale and header-only records never are."""
from .. import bb, chain as K, gen_index as GI

NAMESPACE = "Rbp.Props.C04"
REQUIRED = ["walk_eq_active", "index_is_active_chain", "competitors_invisible", "filter_spec", "tip_is_greatest_validated", "tip_sound", "tip_independent_of_table_order"]
LEAN_FILES = ["Rbp/Model/Walk.lean", "Rbp/Model/Run.lean", "Rbp/Proofs/Index.lean"]
RULE = ("black-box runs on generated block indexes = active chain 0..T (validity VALID_SCRIPTS, data+undo) plus 1..5 competitors drawn from: header-only records at/below/above the tip, never-connected stale siblings with data "
        "(also on top of the tip), failed blocks (FAILED_VALID / FAILED_CHILD, with and without data, also above the tip), once-connected then invalidated branches (validity VALID_SCRIPTS + data + FAILED_VALID/FAILED_CHILD, also reaching above the tip), once-active reorged-out branches of length 1..5 with tips below T, foreign f/l/F/R keys; competitor hashes are ground to sort "
        "before or after the active record of their height; kv insertion order shuffled. Observables: hash/hashPrev/height columns of blocks-*.csv vs the active chain (spec-level oracle) and every callback's output vs the model. "
        "non-trivial = at least one competitor with block data; distinct = distinct scenarios. Family tip-ties (model vs code only, no oracle): a second fully validated branch with data ending at exactly the active tip's height, hashes ground to either side")
ASSUMPTIONS = ["a competitor of validity VALID_SCRIPTS with data at a height >= T cannot be told from the active tip from blocks/index alone (no cumulative work is stored per record in a form this tool reads): outside the domain, as stated in DESIGN.md C04"]

CALLBACKS = ["csvdump", "csvdump", "csvdump", "unspentcsvdump", "balances", "simplestats", "opreturn"]


def comparators(cb):
    c = [bb.cmp_exit, bb.cmp_names, bb.cmp_processed]
    if cb in ("csvdump", "unspentcsvdump", "balances"):
        c.append(bb.cmp_rows)
    elif cb == "opreturn":
        c.append(bb.cmp_opreturn)
    else:
        c.append(bb.cmp_stats)
    return c


def correspondence(ctx):
    r = ctx.sub_rnd("c04")
    by_cb = {}
    actives = {}
    for i in range(ctx.n(120, 1500)):
        cb = CALLBACKS[i % len(CALLBACKS)]
        coin = ["bitcoin", "litecoin", "testnet3"][i % 3]
        s, active = GI.competitor_scenario(r, coin=coin, callback=cb)
        if r.random() < 0.3:
            s.start = r.randrange(0, s.meta["T"] + 1)
            s.stop = r.choice([None, s.start + 1 + r.randrange(s.meta["T"] + 1)])
        if s._comp_heights and r.random() < 0.6:
            # --end exactly at the height of a once-active competitor: the range must not change which chain is walked
            e = r.choice(s._comp_heights)
            if e >= 1:
                s.stop = e
                s.start = r.randrange(0, e)
        s.meta["i"] = i
        by_cb.setdefault(cb, []).append(s)
        actives[id(s)] = active
    for cb, scns in by_cb.items():
        impl, model = bb.check(ctx, "competitors:" + cb, scns, comparators(cb), nontrivial=lambda s, m: any(k in s.meta["competitors"] for k in ("stale", "failed", "reorged", "invalidated")))
        if cb != "csvdump":
            continue
        # spec-level oracle, independent of the model: the blocks file lists exactly the active chain, linked
        for s, res, m in zip(scns, impl, model):
            active = actives[id(s)]
            T = s.meta["T"]
            lo, hi = s.start, T if s.stop is None else min(s.stop, T)
            want = [(active[h].hash()[::-1].hex(), str(h), active[h].prev[::-1].hex()) for h in range(lo, hi + 1)]
            got = None
            for n in res.final_files():
                if n.startswith("blocks-"):
                    got = [(l.split(";")[0], l.split(";")[1], l.split(";")[4]) for l in res.rows(n)]
            if got != want:
                k = next((j for j, (a, b) in enumerate(zip(got or [], want)) if a != b), None)
                ctx.disagree("active-chain-oracle", bb.describe(s), {"exit": res.exit, "first_diff_row": k, "impl_row": (got or [None])[k] if k is not None and got else None, "n_rows": len(got or [])},
                             {"want_row": want[k] if k is not None else None, "n_rows": len(want)}, True, {"scenario": bb.scenario_dump(s), "observable": "delivered-is-active-chain"})

    # ties at the tip (outside the property's domain — see ASSUMPTIONS — but inside the model: tip_is_greatest_validated): a second
    # fully validated branch ending at the active tip's height; the code and the model must follow the same one
    ties = []
    for i in range(ctx.n(16, 160)):
        s, _ = GI.competitor_scenario(r, coin=["bitcoin", "litecoin", "testnet3"][i % 3], callback="csvdump", kinds=["tie", "tie", "stale", "header-only", "foreign-keys"])
        s.meta["i"] = i
        if "tie" in s.meta["competitors"]:
            ties.append(s)
    if ties:
        bb.check(ctx, "tip-ties", ties, comparators("csvdump"), nontrivial=lambda s, m: True)


def replay(ctx, rep, corpus=None):
    d = rep.get("failing_input", rep)
    cb = (d.get("scenario") or {}).get("callback", "csvdump")
    bb.replay_scenario(ctx, rep, comparators(cb))
