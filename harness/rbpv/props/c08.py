"""C08 — balances lists each address once with the sum of its unspent outputs."""
import collections
from .. import bb, chain as K, gen_chain as GC, gen_history as GH

NAMESPACE = "Rbp.Props.C08"
REQUIRED = ["balances_spec", "balances_eq_unspent_aggregate", "exit0_balances_is_aggregate_of_delivered", "balance_is_sum_of_chunk_sums", "bal_append", "aggregation_conserves_value"]
LEAN_FILES = ["Rbp/Model/Balances.lean", "Rbp/Model/Callbacks.lean", "Rbp/Proofs/Utxo.lean"]
RULE = ("black-box `balances` on the spend histories of C07 (shared address pool: many outputs per address, P2PK and P2PKH of one key, addresses fully spent and re-funded, duplicate coinbases, ranges; 20 000 - 70 000 unspent outputs on three addresses; look-alike addresses sharing a long Base58 prefix) vs the whole-program Lean model; "
        "in addition the real `balances` output is compared with the per-address aggregation of the real `unspentcsvdump` output of the same data directory and range (needs no model). Row sets compared after sorting. "
        "non-trivial = an address with >= 2 unspent outputs or a spent output; distinct = distinct scenarios")
ASSUMPTIONS = ["sum of the values of one address < 2^64 (total-supply bound); histories keep values <= 10^10"]

CMP = [bb.cmp_exit, bb.cmp_names, bb.cmp_rows, bb.cmp_tmp]


def correspondence(ctx):
    r = ctx.sub_rnd("c08")
    scns, twins = [], []
    for i in range(ctx.n(60, 600)):
        coin = ["bitcoin", "litecoin", "testnet3", "dogecoin", "myriadcoin"][i % 5]
        blocks = GH.random_history(r, coin, r.randrange(2, 9), shared_addresses=True, many_outputs=(i % 12 == 0), dup_coinbase=(i % 9 == 0))
        s = K.Scenario(coin=coin, callback="balances")
        GC.simple_layout(s, blocks, per_file=r.choice([None, 3]))
        if i % 4 == 0:
            s.start = r.randrange(0, len(blocks))
            s.stop = r.choice([None, s.start + 1 + r.randrange(len(blocks))])
        s.meta = {"i": i}
        u = K.Scenario(coin=coin, callback="unspentcsvdump", start=s.start, stop=s.stop)
        u.kvs, u.files = s.kvs, s.files
        u.meta = {"i": i, "twin": True}
        scns.append(s)
        twins.append(u)
    # (a) many unspent outputs per address (more than any plausible chunk size: 20 000 / 40 000), values large enough that a lost
    #     partial sum shows; (b) look-alike addresses: hashes that differ only in their last byte give Base58 strings sharing a
    #     long prefix — rows must be per address, however similar two addresses are
    def add(blocks, coin, tag):
        s = K.Scenario(coin=coin, callback="balances")
        GC.simple_layout(s, blocks)
        s.meta = {"i": tag}
        u = K.Scenario(coin=coin, callback="unspentcsvdump")
        u.kvs, u.files = s.kvs, s.files
        u.meta = {"i": tag, "twin": True}
        scns.append(s)
        twins.append(u)
    for coin, nout in (("bitcoin", 20000 if not ctx.thorough() else 140000), ("litecoin", 70000)):
        pool = [b"\x76\xa9\x14" + GC.rb(r, 20) + b"\x88\xac" for _ in range(3)]
        txs = [GH.coinbase(0, [(1, pool[0])])]
        per = 2500
        for k in range(nout // per):
            txs.append(K.Tx([(GC.rb(r, 32), k, b"\x01\x01", 0xffffffff)], [(3 * 10**14 + 1000 * k + j, pool[(j * 7 + k) % 3]) for j in range(per)]))
        b0 = K.Block(txs, time=1231006505)
        b1 = K.Block([GH.coinbase(1, [(5, pool[1])]), K.Tx([(txs[1].txid(), 0, b"", 1), (txs[2].txid(), 17, b"", 1)], [(9, pool[2])])], time=1231007000)
        add(GH.link([b0, b1]), coin, "fan-%d" % nout)
    # chains that begin with the coin's REAL genesis block: the key of its pay-to-pubkey output is an address like any other (and
    # may own further outputs, here a second pay-to-pubkey output of the same key)
    from .. import genesis
    for k, (coin, g) in enumerate(sorted(genesis.candidates().items()) * (1 if not ctx.thorough() else 4)):
        hist = GH.random_history(r, coin, r.randrange(1, 5))
        hist[-1].txs[0].outs = list(hist[-1].txs[0].outs) + [(1 * 10**8, g.txs[0].outs[0][1])]
        add(GH.link([g] + hist), coin, "real-genesis-%s-%d" % (coin, k))
    for k in range(ctx.n(6, 30)):
        coin = ["bitcoin", "litecoin", "dogecoin"][k % 3]
        base = GC.rb(r, 19)
        twins_h = [base + bytes([x]) for x in r.sample(range(256), 4)]
        scripts = [b"\x76\xa9\x14" + h + b"\x88\xac" for h in twins_h] + [b"\xa9\x14" + twins_h[0] + b"\x87"]
        blocks = []
        for h in range(3):
            outs = [(r.randrange(1, 10**9), r.choice(scripts)) for _ in range(r.randrange(4, 12))]
            blocks.append(K.Block([GH.coinbase(h, outs[:2]), K.Tx([(GC.rb(r, 32), 0, b"\x01\x01", 1)], outs[2:])], time=1231006505 + 600 * h))
        add(GH.link(blocks), coin, "lookalike-%d" % k)
    impl, model = bb.check(ctx, "histories", scns, CMP)
    impl_u, _ = bb.run_pairs(twins)
    for s, rb_, ru in zip(scns, impl, impl_u):
        ctx.mark(("cross", s.meta["i"]), True)
        ctx.families["cross-check"] += 1
        if rb_.exit != 0 or ru.exit != 0:
            continue
        bn = next((n for n in rb_.final_files() if n.startswith("balances-")), None)
        un = next((n for n in ru.final_files() if n.startswith("unspent-")), None)
        agg = collections.Counter()
        for l in ru.rows(un)[1:]:
            f = l.split(";")
            agg[f[4]] += int(f[3])
        want = sorted("%s;%d" % (a, v) for a, v in agg.items())
        rows = rb_.rows(bn) or [None]      # an empty file has no header line either
        got = sorted(rows[1:])
        if got != want or rows[0] != "address;balance" or bn.replace("balances", "") != un.replace("unspent", ""):
            ctx.disagree("cross-check", bb.describe(s), {"balances_only": sorted(set(got) - set(want))[:3], "header": rows[0], "name": bn, "n": len(got)}, {"aggregate_only": sorted(set(want) - set(got))[:3], "name": un, "n": len(want)}, True,
                         {"scenario": bb.scenario_dump(s), "observable": "balances=aggregate(unspent)"})
    # outside the property's hypothesis (per-address sums < 2^64) but inside the model: the u64 sum of `on_complete` panics in the
    # dev profile exactly when a balance leaves u64 (model: exit 101), and not one unit below
    pan = []
    for name, vals in [("balance-overflow", [1 << 63, 1 << 63]), ("balance-max", [1 << 63, (1 << 63) - 1]), ("balance-overflow-3", [(1 << 64) - 1, 1, 5])]:
        addr = GC.spk(r, "bitcoin", "p2pkh")
        blocks = [K.Block([GH.coinbase(h, [(v, addr)])], time=1000 + h) for h, v in enumerate(vals)]
        GH.link(blocks)
        s = K.Scenario(coin="bitcoin", callback="balances")
        GC.simple_layout(s, blocks)
        s.meta = {"panic-site": name}
        pan.append(s)
    bb.check(ctx, "balance-panic-sites", pan, [bb.cmp_exit, bb.cmp_rows], in_domain=lambda s, m: False)


def replay(ctx, rep, corpus=None):
    bb.replay_scenario(ctx, rep, CMP)
