"""C08 — balances lists each address once with the sum of its unspent outputs."""
import collections
from .. import bb, chain as K, gen_chain as GC, gen_history as GH

NAMESPACE = "Rbp.Props.C08"
REQUIRED = ["balances_spec", "balances_eq_unspent_aggregate"]
LEAN_FILES = ["Rbp/Model/Balances.lean", "Rbp/Model/Callbacks.lean", "Rbp/Proofs/Utxo.lean"]
RULE = ("black-box `balances` on the spend histories of C07 (shared address pool: many outputs per address, P2PK and P2PKH of one key, addresses fully spent and re-funded, duplicate coinbases, ranges) vs the whole-program Lean model; "
        "in addition the real `balances` output is compared with the per-address aggregation of the real `unspentcsvdump` output of the same data directory and range (needs no model). Row sets compared after sorting. "
        "non-trivial = an address with >= 2 unspent outputs or a spent output; distinct = distinct scenarios")
ASSUMPTIONS = ["sum of the values of one address < 2^64 (total-supply bound); histories keep values <= 10^10"]

CMP = [bb.cmp_exit, bb.cmp_names, bb.cmp_rows, bb.cmp_tmp]


def correspondence(ctx):
    r = ctx.sub_rnd("c08")
    scns, twins = [], []
    for i in range(ctx.n(60, 600)):
        coin = ["bitcoin", "litecoin", "testnet3", "dogecoin", "myriadcoin"][i % 5]
        blocks = GH.random_history(r, coin, r.randrange(2, 9), shared_addresses=True, many_outputs=(i % 12 == 0), dup_coinbase=(i % 9 == 0))
        s = K.Scenario(coin=coin, callback="balances")
        GC.simple_layout(s, blocks, per_file=r.choice([None, 3]))
        if i % 4 == 0:
            s.start = r.randrange(0, len(blocks))
            s.stop = r.choice([None, s.start + 1 + r.randrange(len(blocks))])
        s.meta = {"i": i}
        u = K.Scenario(coin=coin, callback="unspentcsvdump", start=s.start, stop=s.stop)
        u.kvs, u.files = s.kvs, s.files
        u.meta = {"i": i, "twin": True}
        scns.append(s)
        twins.append(u)
    impl, model = bb.check(ctx, "histories", scns, CMP)
    impl_u, _ = bb.run_pairs(twins)
    for s, rb_, ru in zip(scns, impl, impl_u):
        ctx.mark(("cross", s.meta["i"]), True)
        ctx.families["cross-check"] += 1
        if rb_.exit != 0 or ru.exit != 0:
            continue
        bn = next((n for n in rb_.final_files() if n.startswith("balances-")), None)
        un = next((n for n in ru.final_files() if n.startswith("unspent-")), None)
        agg = collections.Counter()
        for l in ru.rows(un)[1:]:
            f = l.split(";")
            agg[f[4]] += int(f[3])
        want = sorted("%s;%d" % (a, v) for a, v in agg.items())
        rows = rb_.rows(bn)
        got = sorted(rows[1:])
        if got != want or rows[0] != "address;balance" or bn.replace("balances", "") != un.replace("unspent", ""):
            ctx.disagree("cross-check", bb.describe(s), {"balances_only": sorted(set(got) - set(want))[:3], "header": rows[0], "name": bn, "n": len(got)}, {"aggregate_only": sorted(set(want) - set(got))[:3], "name": un, "n": len(want)}, True,
                         {"scenario": bb.scenario_dump(s), "observable": "balances=aggregate(unspent)"})
    # outside the property's hypothesis (per-address sums < 2^64) but inside the model: the u64 sum of `on_complete` panics in the
    # dev profile exactly when a balance leaves u64 (model: exit 101), and not one unit below
    pan = []
    for name, vals in [("balance-overflow", [1 << 63, 1 << 63]), ("balance-max", [1 << 63, (1 << 63) - 1]), ("balance-overflow-3", [(1 << 64) - 1, 1, 5])]:
        addr = GC.spk(r, "bitcoin", "p2pkh")
        blocks = [K.Block([GH.coinbase(h, [(v, addr)])], time=1000 + h) for h, v in enumerate(vals)]
        GH.link(blocks)
        s = K.Scenario(coin="bitcoin", callback="balances")
        GC.simple_layout(s, blocks)
        s.meta = {"panic-site": name}
        pan.append(s)
    bb.check(ctx, "balance-panic-sites", pan, [bb.cmp_exit, bb.cmp_rows], in_domain=lambda s, m: False)


def replay(ctx, rep, corpus=None):
    bb.replay_scenario(ctx, rep, CMP)
