"""C03 — a block is read from the file and offset its index record names, wherever it is."""
from .. import bb, chain as K, gen_chain as GC, gen_layout as GL

NAMESPACE = "Rbp.Props.C03"
REQUIRED = ["readVarInt_enc", "record_roundtrip", "readAt_block", "layout_independent_read", "foreign_keys_ignored", "magic_never_read", "index_values_consulted_only_through_decoded_fields", "node_version_and_tx_count_not_consulted", "index_visited_in_key_order", "index_arrangement_irrelevant", "varint_prefix_free", "varint_enc_injective"]
LEAN_FILES = ["Rbp/Model/VarInt.lean", "Rbp/Model/Run.lean", "Rbp/Proofs/Record.lean", "Rbp/Proofs/Consulted.lean"]
RULE = ("(a) hooks: real index::read_varint / BlockIndexRecord::from / BlkFile::parse_blk_index vs the Lean model on boundary values (0x7f, 0x80, 0x407f, 0x4080, 2^32, 2^64-1, overlong and overflowing encodings), "
        "records of every status combination, file names with padding widths 1..20, `+`, non-digits, overflow; (b) black-box csvdump on random layouts of one logical chain (permutations within/across 1..n files, file numbers up to 2^64-1, "
        "garbage / unindexed blocks / holes between blocks, sparse offsets beyond 4 GiB, blocks larger than the 32 KiB buffer, backward seeks, foreign index keys, extra directory entries): every layout's four files must equal the model's and "
        "those of the plain sequential layout of the same chain. non-trivial = layout not sequential-in-one-file; distinct = distinct scenarios / requests")
ASSUMPTIONS = ["every record the layout names has its file present; offsets >= 8", "two names that parse to the same file number (blk1.dat and blk01.dat) are outside the domain (read_dir order decides)"]

CMP = [bb.cmp_exit, bb.cmp_names, bb.cmp_rows, bb.cmp_totals]


def venc(n):
    return K.varint(n)


def hook_part(ctx, r):
    # varint
    vals = [0, 1, 0x7f, 0x80, 0x81, 0x407f, 0x4080, 0x4081, 0x20407f, 0x204080, (1 << 32) - 1, 1 << 32, (1 << 63), (1 << 64) - 2, (1 << 64) - 1]
    vals += [r.randrange(1 << r.randrange(1, 65)) for _ in range(ctx.n(300, 5000))]
    reqs = [venc(v).hex() + r.choice(["", "00", "ff", "8000"]) for v in vals]
    reqs += ["", "80", "ff", "8080", "ffffffffffffffffff", "ffffffffffffffffff7f", "80808080808080808000", "fefefefefefefefefe7f", "fefefefefefefefeff00", "808080808080808080808000", "8100", "80ff7f"]
    reqs += [GC.rb(r, r.randrange(0, 12)).hex() for _ in range(ctx.n(300, 5000))]
    reqs = [q if q else "-" for q in reqs]
    _cmp(ctx, "varint", reqs, lambda q: True)
    # records
    reqs = []
    for _ in range(ctx.n(300, 5000)):
        st = r.choice([0, 1, 2, 3, 5, 8, 11, 13, 16, 24, 29, 29 | 128, 32 | 11, 64 | 2, r.randrange(256)])
        key, val = K.record(GC.rb(r, 32), r.choice([0, 1, 127, 128, 16511, 16512, r.randrange(1 << 22), (1 << 64) - 1]), st, r.randrange(1 << 12),
                            r.choice([0, 127, 128, r.randrange(1 << 32), (1 << 64) - 1]), r.choice([8, 127, 128, 16512, (1 << 32) + 7, r.randrange(1 << 40)]), GC.rb(r, 80), undo=r.randrange(1 << 30), client=r.choice([259900, 1, 0, 1 << 21]))
        k = r.random()
        if k < 0.1:
            val = val[:r.randrange(len(val))]
        elif k < 0.15:
            key = r.choice([b"f", b"l", b"R", b"B"]) + key[1:]
        reqs.append("%s %s" % (key.hex(), K.hx(val)))
    _cmp(ctx, "record", reqs, lambda q: True)
    # file names
    names = ["blk00000.dat", "blk6.dat", "blk1202.dat", "blk13412451.dat", "blkindex.dat", "invalid.dat", "blk.dat", "blk+5.dat", "blk-5.dat", "blk 5.dat", "blk5 .dat", "blk18446744073709551615.dat", "blk18446744073709551616.dat",
             "blk000000000000000000000000000007.dat", "blk5.dat.bak", "xblk5.dat", "blk5.DAT", "BLK5.dat", "blk５.dat", "blk0x10.dat", "blk1e3.dat", "blk", ".dat", "", "blk++1.dat", "blk1_000.dat",
             "blk00000.dat.dat", "blk00000.dat.dat.dat", "blkblk00000.dat", "blkblkblk7.dat", "blk7.dat.dat", "blk.dat.dat", "blkblk.dat", "blk00000.datblk", "blk00000.dat.DAT", "blk00000.dat.dat.bak"]
    for _ in range(ctx.n(200, 3000)):
        n = r.choice([r.randrange(10), r.randrange(1 << 20), r.randrange(1 << 64), (1 << 64) - 1])
        names.append("blk%0*d.dat" % (r.randrange(1, 21), n))
        names.append(r.choice(["blk", "blc", "rev", ""]) + "".join(r.choice("0123456789+-x ") for _ in range(r.randrange(0, 8))) + r.choice([".dat", ".dat", ".da", ".dat "]))
    _cmp(ctx, "blkname", [K.hx(n.encode()) for n in names], lambda q: True)
    _cmp(ctx, "compactsize", [K.hx(K.cs(v, w) + GC.rb(r, 2)) for v in (0, 1, 0xfc) for w in (1, 3, 5, 9)] + [K.hx(K.cs(v, w)) for v in (0xfd, 0xffff) for w in (3, 5, 9)] + [K.hx(K.cs(0x10000, w)) for w in (5, 9)] + [K.hx(K.cs(1 << 32, 9)), "fd", "fd01", "fe010203", "ff01020304050607", "-"], lambda q: True)


def _cmp(ctx, cmd, reqs, indom):
    impl = ctx.hook(cmd, reqs)
    model = ctx.model(cmd, reqs)
    for q, a, b in zip(reqs, impl, model):
        ctx.mark((cmd, q), a.startswith(("ok", "some")))
        ctx.families["hook-" + cmd] += 1
        ctx.dist[cmd + "=" + a.split()[0]] += 1
        if a != b:
            ctx.disagree("hook-" + cmd, "%s %s" % (cmd, q[:300]), a[:200], b[:200], indom(q), {"full_request": q, "cmd": cmd})
    ctx.add_sample({"request": "%s %s" % (cmd, reqs[0][:100]), "impl": impl[0], "model": model[0]}, cap=10)


def correspondence(ctx):
    r = ctx.sub_rnd("c03")
    hook_part(ctx, r)
    for i in range(ctx.n(12, 120)):
        coin = K.COINS[i % 8]
        blocks = GC.gen_chain(r, coin, r.randrange(3, 10), max_txs=3)
        if i % 4 == 0:
            # one block larger than the 32 KiB read buffer
            big = K.Tx([(GC.rb(r, 32), 0, GC.rb(r, 40000), 1)], [(5, GC.rb(r, 35000))])
            blocks[1].txs.append(big)
            blocks[1].merkle_root = None
            prev = blocks[1].hash()
            for b in blocks[2:]:
                b.prev = prev
                prev = b.hash()
        ref = K.Scenario(coin=coin, callback="csvdump")
        GC.simple_layout(ref, blocks)
        scns = [ref]
        for k in range(3):
            s = GL.layout(r, coin, blocks, huge=(k == 2 and i % 3 == 0))
            s.meta["i"] = i
            s.meta["k"] = k
            scns.append(s)
            if s.meta.get("huge") or (k == 1 and i % 5 == 0):
                # the same layout as a node with -blocksxor writes it, key lengths that do not divide 2^32 among them (offsets beyond
                # 4 GiB then sit at a key phase that a 32-bit position would get wrong)
                x = K.Scenario(coin=coin, callback="csvdump")
                x.kvs, x.files, x.extra_files, x.block_at = s.kvs, s.files, s.extra_files, s.block_at
                x.xorkey = GC.rb(r, r.choice([3, 6, 7, 12, 31, 8]))
                x.meta = dict(s.meta, xor=len(x.xorkey))
                scns.append(x)
        impl, model = bb.check(ctx, "layouts", scns, CMP, nontrivial=lambda s, m: bool(s.meta))
        # layouts of one chain against each other (needs no model)
        base = impl[0].final_files()
        for s, res in zip(scns[1:], impl[1:]):
            if res.final_files() != base:
                ctx.disagree("layout-vs-sequential", bb.describe(s), {"exit": res.exit, "files": sorted(res.final_files())}, {"files": sorted(base)}, True, {"scenario": bb.scenario_dump(s) if sum(f["size"] for f in s.files.values()) < 200000 else None, "observable": "layout-independence"})


def replay(ctx, rep, corpus=None):
    d = rep.get("failing_input", rep)
    if d.get("cmd"):
        _cmp(ctx, d["cmd"], [d["full_request"]], lambda q: True)
    else:
        bb.replay_scenario(ctx, rep, CMP)
