"""C01 — csvdump reproduces every on-disk block, tx, input and output field exactly."""
import struct
from .. import bb, chain as K, gen_chain as GC, gen_layout as GL

NAMESPACE = "Rbp.Props.C01"
REQUIRED = ["readTx_encTx", "txid_preimage_is_stripped", "readBlock_encBlock", "header_bytes", "compactSize_roundtrip"]
LEAN_FILES = ["Rbp/Model/Wire.lean", "Rbp/Spec/Chain.lean", "Rbp/Proofs/Wire.lean", "Rbp/Model/Block.lean", "Rbp/Model/Run.lean"]
RULE = ("(a) hook `block`: the real read_block on a Cursor vs the Lean parser, every field dumped (hashes, counts, scripts, per-output type/address, to_bytes length, merkle verdict); "
        "(b) black-box csvdump on generated chains, all 8 coins, --verify on/off, four files compared byte for byte + printed totals. Generators: random chains (legacy+segwit txs, arbitrary witness stacks, "
        "flags 0..3, non-minimal CompactSize widths for every count/length, extreme u32/u64 values) + boundary blocks with counts and script lengths at 0xfc/0xfd/0xffff/0x10000. "
        "non-trivial = block with at least 2 txs or a segwit/non-minimal/boundary feature; distinct = distinct block byte strings / scenarios")
ASSUMPTIONS = ["well-formed framing: counts match list lengths, >=1 input per tx, script and witness lengths < 2^32"]

CMP = [bb.cmp_exit, bb.cmp_names, bb.cmp_rows, bb.cmp_totals, bb.cmp_tmp]


def boundary_blocks(r, coin, thorough):
    """blocks whose counts / lengths sit on both sides of every CompactSize width boundary"""
    out = []
    sizes = [0xfc, 0xfd, 0xfe] + ([0xffff, 0x10000] if thorough else [])
    for n in sizes:
        ins = [(GC.rb(r, 32), i, b"", 0xffffffff) for i in range(n)]
        outs = [(i, b"\x51") for i in range(n)]
        cb = K.Tx([(b"\0" * 32, 0xffffffff, b"\x01\x01", 0xffffffff)], [(50 * 10**8, GC.spk(r, coin, "p2pkh"))])
        out.append(("count-%x" % n, K.Block([cb, K.Tx(ins[:max(1, n)], outs)], time=1, nonce=n)))
    for ln in [0xfc, 0xfd, 0xffff, 0x10000] + ([70000] if thorough else []):
        cb = K.Tx([(b"\0" * 32, 0xffffffff, GC.rb(r, min(ln, 100)), 0xffffffff)], [(1, GC.rb(r, ln)), (2, b"\x6a" + GC.rb(r, 3))])
        t2 = K.Tx([(GC.rb(r, 32), 1, GC.rb(r, ln), 7)], [(0xffffffffffffffff, b""), (0, GC.spk(r, coin, "p2sh"))], version=0xffffffff, lock=0xffffffff)
        out.append(("scriptlen-%x" % ln, K.Block([cb, t2], version=0xffffffff, time=0xffffffff, bits=0xffffffff, nonce=0xffffffff)))
    # number of txs in a block across 0xfc/0xfd
    for n in [0xfc, 0xfd]:
        txs = [K.Tx([(b"\0" * 32, 0xffffffff, b"\x01\x01", 0xffffffff)], [(1, b"\x51")])]
        txs += [K.Tx([(GC.rb(r, 32), 0, b"", 0)], [(i, b"")]) for i in range(n - 1)]
        out.append(("txcount-%x" % n, K.Block(txs)))
    # non-minimal widths everywhere, witness with every flag value
    for flag in (0, 1, 2, 3, 0xff):
        for w in (3, 5, 9):
            t = K.Tx([(GC.rb(r, 32), 2, b"\xab" * 3, 5)], [(9, b"\x00\x14" + GC.rb(r, 20))], segwit=(w, flag, [[b"\x01" * 5, b"", GC.rb(r, 300)]]), w_in=w, w_out=w, w_script={("i", 0): w, ("o", 0): w})
            cb = K.Tx([(b"\0" * 32, 0xffffffff, b"\x01\x01", 0xffffffff)], [(1, b"\x51")], w_in=w)
            out.append(("widths-f%d-w%d" % (flag, w), K.Block([cb, t], w_txs=w)))
    return out


def hook_blocks(ctx, r):
    reqs, meta = [], []
    for coin in K.COINS:
        for name, b in boundary_blocks(r, coin, ctx.thorough()) if coin in ("bitcoin", "litecoin") else []:
            raw = b.enc()
            reqs.append("%s %d %s" % (coin, len(raw), raw.hex()))
            meta.append(("boundary:" + name, True))
    for i in range(ctx.n(300, 5000)):
        coin = K.COINS[i % 8]
        b = GC.gen_chain(r, coin, 2, max_txs=r.choice([0, 1, 3, 8]), max_io=r.choice([1, 3, 6]), extreme_values=True)[1]
        raw = b.enc() + (GC.rb(r, r.randrange(0, 5)) if r.random() < 0.3 else b"")
        reqs.append("%s %d %s" % (coin, r.randrange(1 << 32), raw.hex()))
        meta.append(("random", len(b.txs) >= 2 or any(t.segwit for t in b.txs)))
        if r.random() < 0.1:
            cut = raw[:r.randrange(len(raw))]
            reqs.append("%s %d %s" % (coin, 0, K.hx(cut)))
            meta.append(("truncated", False))
    impl = ctx.hook("block", reqs)
    model = ctx.model("block", reqs)
    for (fam, nt), q, a, b in zip(meta, reqs, impl, model):
        ctx.mark(q, nt)
        ctx.families["hook-block:" + fam.split(":")[0]] += 1
        ctx.dist["answer=" + a.split(" ", 1)[0]] += 1
        if a != b:
            # truncated inputs are outside the property's domain (the reader must fail or not, the property does not say)
            indom = fam != "truncated"
            k = next((i for i, (x, y) in enumerate(zip(a.split(), b.split())) if x != y), None)
            ctx.disagree("hook-block:" + fam, "block " + q[:300] + ("…" if len(q) > 300 else ""), " ".join(a.split()[max(0, (k or 0) - 2):(k or 0) + 3])[:300], " ".join(b.split()[max(0, (k or 0) - 2):(k or 0) + 3])[:300], indom,
                         {"full_request": q if len(q) < 100000 else None, "token_index": k})
    ctx.add_sample({"request": "block " + reqs[-1][:160] + "…", "impl": impl[-1][:200], "model": model[-1][:200]})


def correspondence(ctx):
    r = ctx.sub_rnd("c01")
    hook_blocks(ctx, r)
    scns = []
    for i in range(ctx.n(40, 600)):
        coin = K.COINS[i % 8]
        n = r.randrange(2, 12 if not ctx.thorough() else 40)
        blocks = GC.gen_chain(r, coin, n, max_txs=r.choice([1, 4, 12]), max_io=r.choice([2, 4, 8]), extreme_values=True)
        if i % 3 == 1:
            # physical order different from the height order, files larger than the 32 KiB read buffer (the stored length
            # prefix of every block must still be the one in front of that block)
            blocks[1].txs.append(K.Tx([(GC.rb(r, 32), 0, GC.rb(r, 40000), 1)], [(5, GC.rb(r, 30000))]))
            prev = blocks[1].hash()
            for b in blocks[2:]:
                b.prev = prev
                prev = b.hash()
            s = GL.layout(r, coin, blocks, callback="csvdump")
        else:
            s = K.Scenario(coin=coin, callback="csvdump")
            GC.simple_layout(s, blocks, per_file=r.choice([None, 1, 3, 5]))
        if r.random() < 0.4:
            s.verify, s.start = True, 1
        s.meta = dict(s.meta, i=i)
        scns.append(s)
    # boundary blocks inside a chain (heights 1..)
    for coin in ("bitcoin", "dogecoin"):
        bl = [b for _, b in boundary_blocks(r, coin, ctx.thorough())]
        prev = b"\x11" * 32
        for b in bl:
            b.prev = prev
            if coin in K.AUXPOW and b.version >= K.AUXPOW[coin]:
                b.auxpow = K.auxpow_section(r)
            prev = b.hash()
        s = K.Scenario(coin=coin, callback="csvdump")
        GC.simple_layout(s, bl, per_file=4)
        s.meta = {"boundary": True}
        scns.append(s)
    # a block of more than 4 MB (hundreds of transactions with scripts of tens of KB): no size limit of any node applies to a parser
    big = GC.gen_chain(r, "litecoin", 3, max_txs=1, max_io=1, segwit=False)
    for j in range(300 if ctx.thorough() else 290):
        big[1].txs.append(K.Tx([(GC.rb(r, 32), j, GC.rb(r, 20), 7)], [(j, GC.rb(r, 14100))]))
    prev = big[0].hash()
    for b in big[1:]:
        b.prev = prev
        b.merkle_root = None
        prev = b.hash()
    s = K.Scenario(coin="litecoin", callback="csvdump")
    GC.simple_layout(s, big)
    s.meta = {"big-block": len(big[1].enc())}
    scns.append(s)
    # wide transactions: more inputs / outputs than any plausible batch size (the index columns must keep counting)
    for coin, nout, nin in (("bitcoin", 2049, 3), ("litecoin", 5000, 2), ("bitcoin", 4, 2049), ("dogecoin", 4097, 4097 if ctx.thorough() else 5)):
        wb = GC.gen_chain(r, coin, 3, max_txs=1, max_io=1, segwit=False, auxpow_mix=False)
        wb[1].txs.append(K.Tx([(GC.rb(r, 32), j, b"\x01\x01", 0xffffffff) for j in range(nin)], [(j, GC.spk(r, coin, "p2pkh") if j % 5 else b"\x6a\x01\x41") for j in range(nout)]))
        prev = wb[0].hash()
        for b in wb[1:]:
            b.prev = prev
            b.merkle_root = None
            prev = b.hash()
        s = K.Scenario(coin=coin, callback="csvdump")
        GC.simple_layout(s, wb)
        s.meta = {"wide-tx": [nin, nout]}
        scns.append(s)
    # one witness item of more than 2 MiB (a valid block: witness bytes weigh a quarter), and scripts of exactly 1 MiB and 2 MiB: fields
    # that an incremental reader fills in several steps
    for coin, field, ln in [("litecoin", "scriptsig", 1 << 20)] + ([("bitcoin", "witness", (2 << 20) + 1000), ("bitcoin", "script", (2 << 20) + 1), ("bitcoin", "witness", (3 << 20) + 17)] if ctx.thorough() else []):
        hb = GC.gen_chain(r, coin, 3, max_txs=1, max_io=1, segwit=False, auxpow_mix=False)
        data = bytes(ln)[:0] + GC.rb(r, 4096) * (ln // 4096) + GC.rb(r, ln % 4096)
        if field == "witness":
            t = K.Tx([(GC.rb(r, 32), 0, b"", 1)], [(5, GC.spk(r, coin, "p2pkh"))], segwit=(1, 1, [[data, b"\x02" + GC.rb(r, 32)]]))
        elif field == "scriptsig":
            t = K.Tx([(GC.rb(r, 32), 0, data, 1)], [(5, GC.spk(r, coin, "p2pkh"))])
        else:
            t = K.Tx([(GC.rb(r, 32), 0, b"\x01\x01", 1)], [(5, data), (6, GC.spk(r, coin, "p2sh"))])
        hb[1].txs.append(t)
        prev = hb[0].hash()
        for b in hb[1:]:
            b.prev = prev
            b.merkle_root = None
            prev = b.hash()
        s = K.Scenario(coin=coin, callback="csvdump")
        GC.simple_layout(s, hb)
        s.meta = {"huge-field": "%s %d" % (field, ln)}
        scns.append(s)
    # more than 16 MiB of rows in one csv file (thorough): 64 blocks x 2100 inputs
    if ctx.thorough():
        hb = GC.gen_chain(r, "bitcoin", 65, max_txs=1, max_io=1, segwit=False, auxpow_mix=False)
        for j, b in enumerate(hb[1:]):
            b.txs.append(K.Tx([(GC.rb(r, 32), q, b"\x01\x01", 0xffffffff) for q in range(2100)], [(q + 1, GC.spk(r, "bitcoin", "p2pkh")) for q in range(3)]))
        prev = hb[0].hash()
        for b in hb[1:]:
            b.prev = prev
            b.merkle_root = None
            prev = b.hash()
        s = K.Scenario(coin="bitcoin", callback="csvdump")
        GC.simple_layout(s, hb, per_file=20)
        s.meta = {"rows-over-16MiB": True}
        scns.append(s)
    bb.check(ctx, "csvdump-chains", scns, CMP, nontrivial=lambda s, m: len(m["delivered"]) > 1)


def replay(ctx, rep, corpus=None):
    d = rep.get("failing_input", rep)
    if d.get("full_request"):
        q = d["full_request"]
        a, b = ctx.hook("block", [q])[0], ctx.model("block", [q])[0]
        ctx.mark(q, True)
        ctx.add_sample({"request": "block " + q[:160], "impl": a[:200], "model": b[:200]})
        if a != b:
            ctx.disagree("replay", "block " + q[:300], a[:300], b[:300], True, {"full_request": q})
    else:
        bb.replay_scenario(ctx, rep, CMP)
