"""C02 — exactly the blocks of heights start..min(end,tip) are delivered, once, ascending."""
from .. import bb, chain as K, gen_chain as GC

NAMESPACE = "Rbp.Props.C02"
REQUIRED = ["delivered_eq_range", "upper_end", "trimmed_keeps_range", "delivered_eq", "file_names", "range_run_is_slice", "range_run_is_slice_opreturn", "every_run_delivers_an_initial_segment", "empty_range_run"]
LEAN_FILES = ["Rbp/Model/Driver.lean", "Rbp/Model/Run.lean", "Rbp/Proofs/Driver.lean"]
RULE = ("black-box runs of the real binary vs the whole-program Lean model: bounded-exhaustive tip heights T=0..6 (quick; 0..9 thorough) x every accepted (--start,--end) incl. absent options, "
        "e below/at/above T, s=0, s=T, s>T x all five callbacks; plus sampled sparse high heights. Observables: height column of blocks-*.csv, names of the produced files, "
        "`Processed blocks up to height N`, simplestats block count, opreturn heights, unspent/balances rows, all four csvdump files (chains carry byte-identical coinbases at two heights, so a per-block output that depends on earlier blocks breaks the slice law). non-trivial = at least one block delivered; distinct = distinct (T, s, e, callback) tuples")
ASSUMPTIONS = ["contiguous active chain 0..T (the property's domain); rejected option pairs (s >= e) are only checked to be rejected"]

CALLBACKS = ["csvdump", "unspentcsvdump", "balances", "simplestats", "opreturn"]


def comparators(cb):
    c = [bb.cmp_exit, bb.cmp_names, bb.cmp_processed]
    if cb == "csvdump":
        # all four files: the slice law (rows of a range = slice of the whole-chain rows) is proved for the model (slice_csv),
        # so equality with the model for every (s, e) is the slice law for the implementation
        c += [bb.cmp_heights_csv, bb.cmp_rows]
    elif cb in ("unspentcsvdump", "balances"):
        c += [bb.cmp_rows]
    elif cb == "opreturn":
        c += [bb.cmp_opreturn]
    else:
        c += [bb.cmp_stats]
    return c


def scripts(r, coin):
    return r.choice([GC.spk(r, coin, "p2pkh"), GC.spk(r, coin, "p2pkh"), b"\x6a\x04" + bytes([0x41 + r.randrange(26) for _ in range(4)])])


def option_pairs(T, extra):
    pairs = [(0, None)]
    for s in range(0, T + 2):
        if s > 0:
            pairs.append((s, None))
        for e in range(s + 1, T + extra + 1):
            pairs.append((s, e))
    return pairs


def correspondence(ctx):
    r = ctx.sub_rnd("c02")
    maxT = 9 if ctx.thorough() else 6
    for T in range(0, maxT + 1):
        coin = ["bitcoin", "litecoin", "testnet3", "dogecoin"][T % 4]
        blocks = GC.gen_chain(r, coin, T + 1, max_txs=2, max_io=2, scripts=scripts, auxpow_mix=False)
        if T >= 3:
            # byte-identical coinbases at two heights (as on the real chain before BIP30): per-block output must not depend on
            # what earlier blocks — inside or outside the range — contained
            from .. import gen_history as GH
            blocks[T - 1].txs[0] = blocks[1].txs[0]
            if T >= 5:
                blocks[4].txs[0] = blocks[0].txs[0]
            GH.link(blocks)
        base = K.Scenario(coin=coin)
        GC.simple_layout(base, blocks, per_file=r.choice([None, 1, 2, 3]))
        sd = bb.SharedDir(base)
        try:
            for cb in CALLBACKS:
                scns, shared = [], {}
                pairs = option_pairs(T, 2)
                if not ctx.thorough() and cb != "csvdump" and T > 3:
                    pairs = [p for i, p in enumerate(pairs) if i % 3 == T % 3 or p[1] is None]
                for (s, e) in pairs:
                    sc = K.Scenario(coin=coin, callback=cb, start=s, stop=e)
                    sc.kvs, sc.files = base.kvs, base.files
                    sc.meta = {"T": T}
                    scns.append(sc)
                    shared[id(sc)] = sd
                bb.check(ctx, "exhaustive-T%d" % T, scns, comparators(cb), shared, nontrivial=lambda s, m: len(m["delivered"]) > 0)
        finally:
            sd.close()
    # ranges on indexes that also hold competitor records (reorged-out fully validated branches, stale siblings): --end at the
    # height of a competitor must still deliver the slice of the active chain (per-block outputs = slice of the whole run)
    from .. import gen_index as GI
    for k in range(ctx.n(30, 200)):
        s0, active = GI.competitor_scenario(r, coin="bitcoin", callback="csvdump", kinds=["reorged", "reorged", "stale", "header-only"])
        T = s0.meta["T"]
        whole = s0.run_impl()
        ends = sorted(set(s0._comp_heights + [r.randrange(1, T + 1)]))
        for e in ends:
            if e < 1 or e > T:
                continue
            sc = K.Scenario(coin="bitcoin", callback="csvdump", start=r.randrange(0, e), stop=e)
            sc.kvs, sc.files = s0.kvs, s0.files
            sc.meta = {"T": T, "competitors": s0.meta["competitors"], "k": k}
            impl, model = bb.check(ctx, "range-with-competitors", [sc], comparators("csvdump"), nontrivial=lambda s, m: True)
            res = impl[0]
            if whole.exit == 0 and res.exit == 0:
                wb = next((whole.rows(n) for n in whole.final_files() if n.startswith("blocks-")), [])
                rb_ = next((res.rows(n) for n in res.final_files() if n.startswith("blocks-")), [])
                want = [l for l in wb if sc.start <= int(l.split(";")[1]) <= e]
                if rb_ != want:
                    ctx.disagree("slice-law", bb.describe(sc), {"rows": [x[:80] for x in rb_[-2:]]}, {"slice_of_whole_run": [x[:80] for x in want[-2:]]}, True, {"scenario": bb.scenario_dump(sc), "observable": "range = slice of whole chain"})
    # rejected option pairs: s >= e must be refused (exit != 0, nothing produced)
    base = K.Scenario(coin="bitcoin")
    GC.simple_layout(base, GC.gen_chain(r, "bitcoin", 4, max_txs=1, scripts=scripts))
    for (s, e) in [(2, 2), (3, 1), (0, 0)]:
        sc = K.Scenario(callback="csvdump", start=s, stop=e)
        sc.kvs, sc.files = base.kvs, base.files
        res = sc.run_impl()
        ctx.mark(("rejected", s, e), False)
        if res.exit == 0 or res.final_files():
            ctx.disagree("rejected-range", bb.describe(sc), {"exit": res.exit, "files": sorted(res.files)}, "must be rejected", True, {"scenario": bb.scenario_dump(sc)})
    # sparse high heights: records only for a window [T-3, T] at heights up to millions (tiny blocks)
    for k in range(ctx.n(6, 40)):
        T = r.choice([1000, 65535, 65536, 1 << 20, 3 * 10**6, r.randrange(10, 3 * 10**6)])
        w = r.randrange(2, 5)
        coin = r.choice(["bitcoin", "litecoin"])
        blocks = GC.gen_chain(r, coin, w + 1, max_txs=1, max_io=2, scripts=scripts)
        sc = K.Scenario(coin=coin, callback=r.choice(CALLBACKS), start=T - w + r.randrange(0, 2), stop=r.choice([None, T - 1, T, T + 5]))
        GC.simple_layout(sc, blocks, first_height=T - w)
        sc.meta = {"T": T, "sparse": True}
        bb.check(ctx, "sparse-high", [sc], comparators(sc.callback), nontrivial=lambda s, m: len(m["delivered"]) > 0)


def replay(ctx, rep, corpus=None):
    d = rep.get("failing_input", rep)
    cb = (d.get("scenario") or {}).get("callback", "csvdump")
    bb.replay_scenario(ctx, rep, comparators(cb))
