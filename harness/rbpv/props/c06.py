"""C06 — fork coins: scripts tokenised by Bitcoin push rules and typed by template."""
from .. import gen_scripts as G, scriptcheck as S

NAMESPACE = "Rbp.Props.C06"
REQUIRED = ["tokenise_roundtrip", "tokens_eq_spec", "type_iff_template", "address_formula", "eval_total", "coin_table_published"]
LEAN_FILES = ["Rbp/Model/Script.lean", "Rbp/Spec/PushRules.lean", "Rbp/Model/Addr.lean", "Rbp/Model/Lossy.lean", "Rbp/Proofs/Tokens.lean", "Rbp/Proofs/ScriptMachine.lean", "Rbp/Model/ScriptMachine.lean"]
RULE = ("script verdicts (type tag, address) of the real eval_from_bytes vs the Lean model on the six fork version bytes; cases = always-on boundary "
        "families (templates and their one-byte neighbourhoods, every push form in every slot, zero-length/truncated pushes, NOP insertion, m-of-n grid, "
        "256 leading opcodes) + seeded structure-directed bulk with 35% one-step mutations; a case is non-trivial when the script is non-empty and the model "
        "types it other than NotRecognised or it is a mutation/neighbour of a template; distinct = distinct (version, script) pairs")
FORKCOINS = ["namecoin", "litecoin", "dogecoin", "myriadcoin", "unobtanium", "noteblockchain"]
ASSUMPTIONS = ["every byte string is in the property's domain", "address comparison validates the Lean SHA-256/RIPEMD-160/Base58Check against the real ones on every address compared"]


def project(t):
    return tuple(t[:2])


def correspondence(ctx):
    cases = S.cases_for(ctx, 20000, 400000)
    def versions_of(fam, i):
        if fam.startswith(("idiom:", "suffix:", "wrapped:", "twice:")):
            return G.FORK            # coin-specific idioms (Namecoin name operations ...): every fork coin sees every one
        if not fam[0].islower() or ":" in fam or "-" in fam and not fam.endswith("~"):
            return G.FORK if i % 3 == 0 else [G.FORK[i % 6]]
        return [G.FORK[i % 6], G.FORK[(i // 6 + 1) % 6]]
    S.run(ctx, cases, versions_of, project)
    # the same verdicts where the property observes them: scripts as transaction outputs through read_block -> eval_script,
    # incl. scripts longer than 10 000 bytes (boundary families in full, a sample of the bulk)
    r = ctx.sub_rnd("out-path")
    sub = [c for i, c in enumerate(cases) if len(c[1]) < 2000 and (i < 5000 or i % 7 == 0)][:ctx.n(3500, 80000)]
    sub += list(S.long_scripts(r, ctx.thorough()))
    S.run_via_outputs(ctx, sub, lambda fam, i: FORKCOINS if fam.startswith(("idiom:", "well-known:")) else [FORKCOINS[i % 6]] + ([FORKCOINS[(i + 3) % 6]] if fam.startswith("long") else []))
    S.address_chains(ctx, FORKCOINS)


def replay(ctx, rep, corpus=None):
    if rep.get("failing_input", rep).get("scenario"):
        from .. import bb
        return bb.replay_scenario(ctx, rep, bb.comparators_for(rep.get("failing_input", rep)["scenario"]["callback"]))
    if rep.get("failing_input", rep).get("via") == "block":
        return S.replay_via_outputs(ctx, rep)
    S.replay_one(ctx, rep, project)


def shrink(ctx, d):
    if d.get("via") == "block" or d.get("scenario"):
        return d
    return S.shrink_script(ctx, d, project)
