"""C11 — XOR-obfuscated block files yield the same result as plaintext ones."""
import copy
from .. import bb, chain as K, gen_chain as GC, gen_layout as GL

NAMESPACE = "Rbp.Props.C11"
REQUIRED = ["xor_plain", "xor_involutive"]
LEAN_FILES = ["Rbp/Model/Xor.lean", "Rbp/Model/Run.lean"]
RULE = ("(a) hook `xor`: the real XorReader<BufReader<Cursor>> with buffer capacities 1..64 bytes (forcing refills) under random seek/read sequences (backward and forward seeks, reads past EOF, read sizes larger than the buffer) "
        "vs the model's positional reader; keys of length 1..64, all-zero and random; (b) black-box: the layouts of C03 (incl. blocks larger than the 32 KiB buffer, offsets not multiples of the key length, sparse multi-GiB offsets) stored XOR-ed with the key "
        "repeating from file offset 0: all callback outputs must be identical to those of the plaintext directory and to the model's. non-trivial = key not all-zero; distinct = distinct (key, data, ops) / scenarios")
ASSUMPTIONS = ["key length >= 1 (an empty xor.dat divides by zero: outside the property)"]

CALLBACKS = ["csvdump", "csvdump", "unspentcsvdump", "balances", "opreturn", "simplestats"]


def comparators(cb):
    c = [bb.cmp_exit, bb.cmp_names]
    if cb in ("csvdump", "unspentcsvdump", "balances"):
        c.append(bb.cmp_rows)
    elif cb == "opreturn":
        c.append(bb.cmp_opreturn)
    else:
        c.append(bb.cmp_stats)
    return c


def key_of(r, coin=None):
    import struct
    return GC.xor_key(r, struct.pack("<I", K.MAGIC[coin]) if coin else None)


def hook_part(ctx, r):
    reqs = []
    for _ in range(ctx.n(400, 6000)):
        key = key_of(r)
        cap = r.choice([1, 2, 3, 5, 8, 13, 16, 64])
        n = r.randrange(1, 300)
        data = GC.rb(r, n)
        ops = []
        for _ in range(r.randrange(1, 12)):
            if r.random() < 0.45:
                ops.append("s%d" % r.choice([0, r.randrange(n + 5), r.randrange(n + 5), n, n - 1]))
            else:
                ops.append("r%d" % r.choice([0, 1, 4, r.randrange(1, 40), cap, cap + 1, n]))
        reqs.append("%s %d %s %s" % (key.hex(), cap, data.hex(), " ".join(ops)))
    impl = ctx.hook("xor", reqs)
    model = ctx.model("xor", reqs)
    for q, a, b in zip(reqs, impl, model):
        ctx.mark(("xor", q), any(c != "0" for c in q.split()[0]))
        ctx.families["hook-xor"] += 1
        if a != b:
            ctx.disagree("hook-xor", "xor " + q[:300], a[:200], b[:200], True, {"full_request": q})
    ctx.add_sample({"request": "xor " + reqs[0][:200], "impl": impl[0][:100], "model": model[0][:100]})


def correspondence(ctx):
    r = ctx.sub_rnd("c11")
    hook_part(ctx, r)
    for i in range(ctx.n(14, 150)):
        coin = K.COINS[i % 8]
        cb = CALLBACKS[i % len(CALLBACKS)]
        blocks = GC.gen_chain(r, coin, r.randrange(3, 9), max_txs=3)
        if i % 4 == 0:
            blocks[1].txs.append(K.Tx([(GC.rb(r, 32), 0, GC.rb(r, 40000), 1)], [(5, GC.rb(r, 35000))]))
            prev = blocks[1].hash()
            for b in blocks[2:]:
                b.prev = prev
                prev = b.hash()
        plain = GL.layout(r, coin, blocks, callback=cb, huge=(i % 5 == 0))
        # --verify must make no difference between the plaintext and the obfuscated directory either (generated chains are consistent
        # from height 1 on; the genesis hash of a generated block 0 is not the coin's, so verified runs start at 1)
        if i % 3 == 1 and len(blocks) > 2:
            plain.verify, plain.start = True, 1
        xs = []
        for k in range(2):
            x = K.Scenario(coin=coin, callback=cb, start=plain.start, verify=plain.verify)
            x.kvs, x.files, x.extra_files = plain.kvs, plain.files, plain.extra_files
            x.xorkey = key_of(r, coin)
            x.meta = dict(plain.meta, i=i, k=k, keylen=len(x.xorkey), zero=not any(x.xorkey))
            xs.append(x)
        impl, model = bb.check(ctx, "xor-layouts:" + cb, [plain] + xs, comparators(cb), nontrivial=lambda s, m: s.xorkey is not None and any(s.xorkey))
        base = impl[0]
        for x, res in zip(xs, impl[1:]):
            same = res.exit == base.exit and res.final_files() == base.final_files() and res.plain_stdout() == base.plain_stdout()
            if cb == "simplestats":
                # the type table is printed in HashMap order: compare the parsed report, never the text
                same = res.exit == base.exit and res.stats() == base.stats()
            if cb in ("unspentcsvdump", "balances"):
                same = res.exit == base.exit and {n: sorted(b.splitlines()) for n, b in res.final_files().items()} == {n: sorted(b.splitlines()) for n, b in base.final_files().items()}
            if not same:
                ctx.disagree("xor-vs-plain", bb.describe(x), {"exit": res.exit, "files": sorted(res.final_files())}, {"plain_exit": base.exit, "files": sorted(base.final_files())}, True,
                             {"scenario": bb.scenario_dump(x) if sum(f["size"] for f in x.files.values()) < 200000 else None, "observable": "xor-transparent"})


def replay(ctx, rep, corpus=None):
    d = rep.get("failing_input", rep)
    if d.get("full_request") and not d.get("scenario"):
        q = d["full_request"]
        a, b = ctx.hook("xor", [q])[0], ctx.model("xor", [q])[0]
        ctx.mark(q, True)
        if a != b:
            ctx.disagree("replay", "xor " + q[:300], a[:200], b[:200], True, {"full_request": q})
    else:
        cb = (d.get("scenario") or {}).get("callback", "csvdump")
        bb.replay_scenario(ctx, rep, comparators(cb))
