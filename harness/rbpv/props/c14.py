"""C14 — no script or witness content can abort a run or disturb other rows."""
from .. import bb, chain as K, gen_chain as GC, gen_scripts as G, scriptcheck as S

NAMESPACE = "Rbp.Props.C14"
REQUIRED = ["evalCustom_total", "tokeniser_total", "evalBtc_total", "bare_multisig_safe"]
LEAN_FILES = ["Rbp/Model/Script.lean", "Rbp/Model/ScriptMachine.lean", "Rbp/Proofs/ScriptMachine.lean", "Rbp/Model/ScriptMachineBtc.lean", "Rbp/Proofs/ScriptMachineBtc.lean"]
RULE = ("panic behaviour of the real script evaluation (catch_unwind per request, dev profile = overflow checks on) on all 8 version bytes: boundary + bulk families of C05/C06 "
        "plus stress families (1..5000 pushes, 1 KB..100 KB scripts, PUSHDATA4 with lengths up to 2^32-1, invalid UTF-8 after OP_RETURN); the model is total, so any PANIC answer is a violation; "
        "non-trivial = non-empty script typed other than NotRecognised by the model or a mutation; distinct (version, script) pairs")
ASSUMPTIONS = ["framing (counts, lengths) stays well-formed; only the content of script / witness fields is arbitrary"]


def project(t):
    return t[0] == "PANIC"


def correspondence(ctx):
    cases = S.cases_for(ctx, 15000, 300000, stress=True, exhaustive=False)
    def versions_of(fam, i):
        if fam.startswith(("pushes", "long", "huge", "trunc", "many", "idiom:", "well-known:")):
            return G.VERS          # coin-specific idioms (alone, cut short, followed by a template): every coin sees every one
        if fam.startswith(("lead256", "nbhd", "tmpl", "mn-grid", "witness", "empty")):
            return G.BTC + [G.FORK[i % 6]]
        return [G.VERS[i % 8], G.VERS[(i * 7 + 3) % 8]]
    S.run(ctx, cases, versions_of, project)
    field_lengths(ctx)
    blackbox(ctx)


LENS = [0, 1, 75, 76, 252, 253, 520, 521, 9999, 10000, 10001, 20000, 32767, 32768, 32769, 65535, 65536, 100000]


def field_lengths(ctx):
    """the three miner-chosen fields at every length class up to 100 KB (consensus size limits do not bind a parser): a block
    whose second transaction carries a scriptSig / scriptPubKey / witness item of exactly that length, arbitrary bytes, must parse
    (no panic, no error) and give exactly the model's dump — in-process through the real read_block"""
    r = ctx.sub_rnd("c14-lens")
    reqs, meta = [], []
    lens = LENS if ctx.thorough() else [l for l in LENS if l not in (1, 75, 252, 520, 9999, 32767)]
    for field in ("scriptsig", "scriptpubkey", "witness-item", "witness-items"):
        for ln in lens:
            for coin in (["bitcoin", "litecoin"] if ln in (10001, 65536, 100000) or ctx.thorough() else [["bitcoin", "dogecoin", "testnet3", "namecoin"][(ln + len(field)) % 4]]):
                data = GC.rb(r, ln)
                sig, spk, wit = b"\x01\x01", b"\x51", None
                if field == "scriptsig":
                    sig = data
                elif field == "scriptpubkey":
                    spk = data
                elif field == "witness-item":
                    wit = (1, 1, [[data]])
                else:
                    wit = (1, 1, [[b"", data, GC.rb(r, 3), data[:ln // 2]]])
                cb = K.Tx([(b"\0" * 32, 0xffffffff, b"\x01\x01", 0xffffffff)], [(1, b"\x51")])
                t = K.Tx([(GC.rb(r, 32), 0, sig, 5)], [(7, spk), (8, b"\x6a\x01\x41")], segwit=wit)
                raw = K.Block([cb, t], version=1 if coin in ("bitcoin", "testnet3", "litecoin") else 2).enc()
                reqs.append("%s %d %s" % (coin, len(raw), raw.hex()))
                meta.append((field, ln, coin))
    impl = ctx.hook("block", reqs)
    model = ctx.model("block", reqs)
    for (field, ln, coin), q, a, b in zip(meta, reqs, impl, model):
        ctx.mark(("len", field, ln, coin), True)
        ctx.families["field-length:" + field] += 1
        if a != b or not a.startswith("ok "):
            k = next((i for i, (x, y) in enumerate(zip(a.split(), b.split())) if x != y), 0)
            ctx.disagree("field-length:%s-%d" % (field, ln), "block %s (second tx: %s of %d bytes) %s…" % (coin, field, ln, q[:120]), " ".join(a.split()[max(0, k - 1):k + 2])[:200], " ".join(b.split()[max(0, k - 1):k + 2])[:200], True,
                         {"full_request": q, "cmd": "block", "observable": "read_block completes with the model's dump"})


CALLBACKS = ["csvdump", "unspentcsvdump", "balances", "simplestats", "opreturn"]


def comparators(cb):
    c = [bb.cmp_exit, bb.cmp_names]
    if cb in ("csvdump", "unspentcsvdump", "balances"):
        c.append(bb.cmp_rows)
    elif cb == "opreturn":
        c.append(bb.cmp_opreturn)
    else:
        c.append(bb.cmp_stats)
    return c


def blackbox(ctx):
    """adversarial bytes in scriptPubKey, scriptSig and witness items of otherwise valid chains: every callback on every coin
    must exit 0 and produce exactly the model's output (rows not derived from the field are therefore untouched)"""
    r = ctx.sub_rnd("c14-bb")
    pool = [s for _f, s in G.boundary(r, exhaustive=False) if len(s) < 400] + [s for _f, s in G.stress(r, False) if len(s) <= 10001]
    def nasty(rr, coin=None):
        k = rr.random()
        if k < 0.6:
            return rr.choice(pool)
        if k < 0.8:
            return G.mutate(rr, G.tmpl(rr)[1])
        return GC.rb(rr, rr.choice([0, 1, 5, 100, 1000]))
    by_cb = {}
    for i in range(ctx.n(40, 400)):
        coin = K.COINS[i % 8]
        cb = CALLBACKS[(i // 8) % 5]
        blocks = GC.gen_chain(r, coin, r.randrange(2, 6), max_txs=3, max_io=3, scripts=nasty, auxpow_mix=False)
        cb_sigs = [b"", b"\x01", b"\x03\xaa\xbb", b"\x03\xaa\xbb\xcc", b"\x04\x01\x02\x03", b"\x08" + b"\x07" * 7, b"\x08" + b"\x07" * 8, b"\x09" + b"\x07" * 9, b"\x4c", b"\x4c\x05ab",
                   b"\x4e\xff\xff\xff\xff", b"\x00", b"\x51", b"\x02\x00", b"\x01" * 100, b"\x01" * 101, b"\x05" * 150, b"\xff" * 3]
        for bi, b in enumerate(blocks):
            # the coinbase's scriptSig is miner-chosen too (BIP34 heights are a convention, not a format): any bytes, any block version
            if bi > 0 and r.random() < 0.7:
                (h0, ix0, _s0, q0) = b.txs[0].ins[0]
                b.txs[0].ins = [(h0, ix0, r.choice(cb_sigs) if r.random() < 0.8 else nasty(r), q0)]
                b.version = r.choice([1, 2, 2, 3, 4] + ([0x20000000, 0x3fffe000, 0xffffffff] if coin not in K.AUXPOW else []))   # no AuxPoW section here: stay below the threshold
            for t in b.txs[1:]:
                t.ins = [(h, ix, nasty(r), q) for (h, ix, _s, q) in t.ins]
                if t.segwit:
                    mw, flag, stacks = t.segwit
                    t.segwit = (mw, flag, [[nasty(r) for _ in st] for st in stacks])
        prev = b"\0" * 32
        for b in blocks:
            b.prev = prev
            b.merkle_root = None
            prev = b.hash()
        s = K.Scenario(coin=coin, callback=cb)
        GC.simple_layout(s, blocks, per_file=r.choice([None, 2]))
        s.meta = {"i": i}
        by_cb.setdefault(cb, []).append(s)
    # the same 20-byte hash / the same key under several templates within one run (P2PKH(h), P2SH(h), P2PK(k), P2SH(HASH160 k),
    # P2PKH(HASH160 k), witness programs of h): an output's row must not depend on which other outputs were evaluated before it
    import hashlib
    for i in range(ctx.n(10, 60)):
        coin = K.COINS[i % 8]
        h, key = GC.rb(r, 20), b"\x02" + GC.rb(r, 32)
        hk = hashlib.new("ripemd160", hashlib.sha256(key).digest()).digest() if "ripemd160" in hashlib.algorithms_available else GC.rb(r, 20)
        variants = [b"\x76\xa9\x14" + h + b"\x88\xac", b"\xa9\x14" + h + b"\x87", bytes([len(key)]) + key + b"\xac",
                    b"\xa9\x14" + hk + b"\x87", b"\x76\xa9\x14" + hk + b"\x88\xac", b"\x00\x14" + h, b"\x76\xa9\x4c\x14" + h + b"\x88\xac"]
        cb = CALLBACKS[i % 3]
        blocks = GC.gen_chain(r, coin, 4, max_txs=1, max_io=1, auxpow_mix=False)
        order = list(variants)
        r.shuffle(order)
        for j, b in enumerate(blocks[1:]):
            outs = [(1000 + 7 * q, sc) for q, sc in enumerate(order[j * 2:] + order[:j * 2])]
            b.txs.append(K.Tx([(GC.rb(r, 32), j, b"", 1)], outs))
        prev = blocks[0].hash()
        for b in blocks[1:]:
            b.prev = prev
            b.merkle_root = None
            prev = b.hash()
        s = K.Scenario(coin=coin, callback=cb)
        GC.simple_layout(s, blocks)
        s.meta = {"shared-hash": i}
        by_cb.setdefault(cb, []).append(s)
    # several OP_RETURN-led outputs in ONE transaction, the early ones evaluating to nothing printable (bare 6a, 6a 00, truncated
    # push, invalid UTF-8) and a printable one after them: an output's script must not silence its siblings' rows
    quiet = [b"\x6a", b"\x6a\x00", b"\x6a\x4c", b"\x6a\x05ab", b"\x6a\x02\xc0\x80", b"\x6a\x01\xff", b"\x6a\x4d\x01", b"\x6a\x51"]
    for i in range(ctx.n(8, 40)):
        coin = K.COINS[i % 8]
        cb = ["opreturn", "opreturn", "csvdump", "simplestats"][i % 4]
        blocks = GC.gen_chain(r, coin, 4, max_txs=1, max_io=1, auxpow_mix=False)
        for j, b in enumerate(blocks[1:]):
            outs = []
            for q in range(r.randrange(2, 6)):
                sc = r.choice(quiet) if (q == 0 or r.random() < 0.4) else b"\x6a" + bytes([5 + q]) + (b"text-%d-%d-%d" % (i, j, q))[:5 + q].ljust(5 + q, b".")
                outs.append((q, sc))
            outs.append((9, b"\x6a\x08last one"))
            b.txs.append(K.Tx([(GC.rb(r, 32), j, b"", 1)], outs))
        prev = blocks[0].hash()
        for b in blocks[1:]:
            b.prev = prev
            b.merkle_root = None
            prev = b.hash()
        s = K.Scenario(coin=coin, callback=cb)
        GC.simple_layout(s, blocks)
        s.meta = {"sibling-opreturns": i}
        by_cb.setdefault(cb, []).append(s)
    # text after OP_RETURN with a multi-byte character (or, on the coins that print lossily, an invalid byte that becomes the 3-byte
    # U+FFFD) astride every byte offset 1..70: whatever a callback or a log line does with such text (cut it, pad it, count it) must
    # not depend on where the character boundaries fall — at every log level, since -v / -vv only add log lines
    wide = [b"\xc3\xa9", b"\xe2\x82\xac", b"\xf0\x9f\x98\x80", b"\xff", b"\xc2\x85", b"\xef\xbf\xbd"]
    for ci, coin in enumerate(("bitcoin", "litecoin", "dogecoin")):
        blocks = GC.gen_chain(r, coin, 5, max_txs=1, max_io=1, auxpow_mix=False, segwit=False)
        offs = list(range(0, 71))
        for j, b in enumerate(blocks[1:]):
            outs = []
            for off in offs[j::4]:
                ch = wide[(off + ci) % len(wide)]
                pay = (b"a" * off + ch + b"z" * 75)[:75]
                if len(pay[:off + len(ch)]) < off + len(ch):
                    pay = pay[:off]
                outs.append((off, b"\x6a" + bytes([len(pay)]) + pay))
            b.txs.append(K.Tx([(GC.rb(r, 32), j, b"", 1)], outs))
        prev = blocks[0].hash()
        for b in blocks[1:]:
            b.prev = prev
            b.merkle_root = None
            prev = b.hash()
        for cb in CALLBACKS:
            for vb in (0, 1, 2):
                s = K.Scenario(coin=coin, callback=cb)
                GC.simple_layout(s, blocks)
                s.verbose = vb
                s.meta = {"text-boundaries": coin, "v": vb}
                by_cb.setdefault(cb, []).append(s)
    # fields longer than 64 KiB in a directory obfuscated with xor.dat (key lengths 8 and others): the whole field goes through the
    # de-obfuscating reader in one request, far larger than its buffer
    for k, (field, ln) in enumerate([("scriptsig", 65536), ("scriptpubkey", 65537), ("witness-item", 70000), ("scriptpubkey", 100000), ("scriptsig", 100000), ("witness-item", 131073)]):
        coin = ["bitcoin", "litecoin"][k % 2]
        blocks = GC.gen_chain(r, coin, 3, max_txs=1, max_io=1, auxpow_mix=False, segwit=False)
        data = GC.rb(r, ln)
        sig, spk, wit = b"\x01\x01", b"\x51", None
        if field == "scriptsig":
            sig = data
        elif field == "scriptpubkey":
            spk = data
        else:
            wit = (1, 1, [[data, b"\x02" + GC.rb(r, 32)]])
        spent = blocks[0].txs[0]
        blocks[1].txs.append(K.Tx([(spent.txid(), 0, sig, 5)], [(7, spk), (8, b"\x6a\x01\x41"), (9, GC.spk(r, coin, "p2pkh"))], segwit=wit))
        blocks[2].txs.append(K.Tx([(blocks[1].txs[-1].txid(), 2, b"\x01\x01", 5)], [(3, GC.spk(r, coin, "p2sh"))]))
        prev = blocks[0].hash()
        for b in blocks[1:]:
            b.prev = prev
            b.merkle_root = None
            prev = b.hash()
        for cb in ("csvdump", "unspentcsvdump", "simplestats")[k % 3:k % 3 + 1] + ("balances",)[:k % 2]:
            s = K.Scenario(coin=coin, callback=cb)
            GC.simple_layout(s, blocks)
            s.xorkey = [GC.rb(r, 8), GC.rb(r, 12), GC.rb(r, 31)][k % 3]
            s.verify, s.start = (k % 2 == 0), (1 if k % 2 == 0 else 0)
            s.meta = {"long-field-obfuscated": "%s %d" % (field, ln)}
            by_cb.setdefault(cb, []).append(s)
    for cb, scns in by_cb.items():
        impl, model = bb.check(ctx, "adversarial-chains:" + cb, scns, comparators(cb))
        for s, res in zip(scns, impl):
            if res.exit != 0:
                ctx.disagree("adversarial-chains:must-complete", bb.describe(s), {"exit": res.exit, "stderr": res.stderr.decode(errors="replace")[-300:]}, {"expected": "exit 0"}, True, {"scenario": bb.scenario_dump(s), "observable": "exit-status"})


def replay(ctx, rep, corpus=None):
    d = rep.get("failing_input", rep)
    if d.get("cmd") == "block":
        q = d["full_request"]
        a, b = ctx.hook("block", [q])[0], ctx.model("block", [q])[0]
        ctx.mark(q, True)
        if a != b or not a.startswith("ok "):
            ctx.disagree("replay", "block " + q[:200], a[:200], b[:200], True, {"full_request": q, "cmd": "block"})
    elif d.get("scenario"):
        bb.replay_scenario(ctx, rep, comparators(d["scenario"].get("callback", "csvdump")))
    else:
        S.replay_one(ctx, rep, project)


def shrink(ctx, d):
    if d.get("cmd") == "block":
        return d
    return S.shrink_script(ctx, d, project)
