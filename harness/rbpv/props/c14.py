"""C14 — no script or witness content can abort a run or disturb other rows."""
from .. import gen_scripts as G, scriptcheck as S

NAMESPACE = "Rbp.Props.C14"
REQUIRED = []
LEAN_FILES = ["Rbp/Model/Script.lean"]
RULE = ("panic behaviour of the real script evaluation (catch_unwind per request, dev profile = overflow checks on) on all 8 version bytes: boundary + bulk families of C05/C06 "
        "plus stress families (1..5000 pushes, 1 KB..100 KB scripts, PUSHDATA4 with lengths up to 2^32-1, invalid UTF-8 after OP_RETURN); the model is total, so any PANIC answer is a violation; "
        "non-trivial = non-empty script typed other than NotRecognised by the model or a mutation; distinct (version, script) pairs")
ASSUMPTIONS = ["framing (counts, lengths) stays well-formed; only the content of script / witness fields is arbitrary"]


def project(t):
    return t[0] == "PANIC"


def correspondence(ctx):
    cases = S.cases_for(ctx, 15000, 300000, stress=True, exhaustive=False)
    def versions_of(fam, i):
        if fam.startswith(("pushes", "long", "huge", "trunc", "many")):
            return G.VERS
        return [G.VERS[i % 8], G.VERS[(i * 7 + 3) % 8]]
    S.run(ctx, cases, versions_of, project)


def replay(ctx, rep, corpus=None):
    S.replay_one(ctx, rep, project)


def shrink(ctx, d):
    return S.shrink_script(ctx, d, project)
