"""Real genesis blocks, reconstructed from their published fields and self-validated against the hashes compiled
into the binary (nothing here is trusted: a vector whose hash does not match is dropped)."""
import struct
from . import chain as K

LTC_KEY = bytes.fromhex("040184710fa689ad5023690c80f3a49c8f13f8d45b8c857fbcbc8bc4a8e4d3eb4b10f4d4604fa08dce601aaf0f470216fe1b51850b4acf21b179c45070ac7b03a9")
BTC_KEY = bytes.fromhex("04678afdb0fe5548271967f1a67130b7105cd6a828e03909a67962e0ea1f61deb649f6bc3f4cef38c4f35504e51ec112de5c384df7ba0b8d578a4c702b6bf11d5f")


def _cb(msg, key, value, extra=b"\x04"):
    sig = b"\x04\xff\xff\x00\x1d\x01" + extra + bytes([len(msg)]) + msg
    return K.Tx([(b"\0" * 32, 0xffffffff, sig, 0xffffffff)], [(value, bytes([len(key)]) + key + b"\xac")])


def candidates():
    btc = _cb(b"The Times 03/Jan/2009 Chancellor on brink of second bailout for banks", BTC_KEY, 50 * 10**8)
    ltc = _cb("NY Times 05/Oct/2011 Steve Jobs, Apple’s Visionary, Dies at 56".encode(), LTC_KEY, 50 * 10**8)
    doge = _cb(b"Nintondo", LTC_KEY, 88 * 10**8)
    return {
        "bitcoin": K.Block([btc], version=1, time=1231006505, bits=0x1d00ffff, nonce=2083236893),
        "testnet3": K.Block([btc], version=1, time=1296688602, bits=0x1d00ffff, nonce=414098458),
        "litecoin": K.Block([ltc], version=1, time=1317972665, bits=0x1e0ffff0, nonce=2084524493),
        "dogecoin": K.Block([doge], version=1, time=1386325540, bits=0x1e0ffff0, nonce=99943),
    }


def validated(coin_table):
    """coin_table: {cli name: genesis hash hex (display order)} from the hook `consts`"""
    out = {}
    for coin, b in candidates().items():
        if b.hash()[::-1].hex() == coin_table.get(coin):
            out[coin] = b
    return out
