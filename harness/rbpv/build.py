"""Builds: the implementation from /repo's working tree (hooks on), generated constants, the Lean project."""
import os, re, subprocess, time
from . import common as C

RUSTFLAGS = "--cfg rbp_verif --check-cfg cfg(rbp_verif)"


class BuildError(Exception):
    pass


def _tree_digest():
    """content hash of everything cargo compiles from /repo (not mtimes: a tree restored with old timestamps must still rebuild)"""
    import hashlib
    h = hashlib.sha256()
    paths = []
    for d, _dirs, files in os.walk(os.path.join(C.REPO, "src")):
        paths += [os.path.join(d, f) for f in files]
    paths += [os.path.join(C.REPO, f) for f in ("Cargo.toml", "Cargo.lock", "build.rs")]
    for p in sorted(paths):
        if os.path.isfile(p):
            h.update(os.path.relpath(p, C.REPO).encode() + b"\0")
            h.update(open(p, "rb").read())
            h.update(b"\0")
    return h.hexdigest()


def build_impl():
    """cargo build (dev profile) of /repo's current working tree with the hooks compiled in.  Cargo decides freshness by file
    times; the harness decides it by content: when the tree's content hash differs from the one the cached binary was built from,
    the crate's own artifacts are removed first, so the binary always is the working tree's."""
    with C.Lock("cargo"):
        env = {"RUSTFLAGS": RUSTFLAGS, "CARGO_TARGET_DIR": C.TARGET, "CARGO_NET_OFFLINE": "true"}
        stamp = os.path.join(C.TARGET, "rbp-src.stamp")
        digest = _tree_digest()
        try:
            built_from = open(stamp).read().strip()
        except OSError:
            built_from = None
        if built_from != digest:
            if os.path.isdir(C.TARGET):
                C.run(["cargo", "clean", "--offline", "-p", "rusty-blockparser"], env=env, cwd=C.REPO)
            try:
                os.remove(stamp)
            except OSError:
                pass
        p = C.run(["cargo", "build", "--offline", "--quiet"], env=env, cwd=C.REPO)
        if p.returncode != 0:
            raise BuildError("cargo build with hooks failed:\n" + p.stderr.decode(errors="replace")[-3000:])
        os.makedirs(C.TARGET, exist_ok=True)
        with open(stamp, "w") as f:
            f.write(digest)
    return C.IMPL


def _eval_const(expr, env):
    """integer constant expressions of the kind found in the sources: literals (with _ / 0x), known names, | & ^ << >> + - * ( )"""
    e = expr.strip().replace("_", "")
    e = re.sub(r"\b([0-9]+|0x[0-9a-fA-F]+)u?(8|16|32|64|size)\b", r"\1", e)
    for name, val in env.items():
        e = re.sub(r"\b%s\b" % name.replace("_", ""), str(val), e)
    if not re.fullmatch(r"[0-9a-fA-Fx\s|&^<>+\-*()]+", e):
        raise ValueError("not a constant expression: %r" % expr)
    return int(eval(e, {"__builtins__": {}}, {}))


def source_consts():
    """Translator strand on the SOURCE TEXT of /repo's working tree: the block-status constants of index.rs and the subsidy rule of
    block.rs are read from the Rust source and written into Rbp/Generated/Consts.lean, where theorems compare them with the
    published values and with what the model assumes.  A constant that cannot be found or evaluated is emitted as absent, which
    breaks the theorem (and is then reported as a broken obligation), never silently defaulted."""
    status, reward = {}, (0, 0)
    try:
        txt = open(os.path.join(C.REPO, "src", "blockchain", "parser", "index.rs")).read()
        txt = re.sub(r"//[^\n]*", "", txt)
        env = {}
        for m in re.finditer(r"^\s*(?:pub(?:\([a-z]+\))?\s+)?const\s+([A-Z][A-Z_0-9]*)\s*:\s*u(?:8|16|32|64|size)\s*=\s*([^;]+);", txt, re.M):
            try:
                env[m.group(1)] = _eval_const(m.group(2), env)
            except Exception:
                pass
        # exactly the constants the model mirrors (a new, unrelated BLOCK_* constant is not part of the tie)
        status = {k: v for k, v in env.items() if k in ("BLOCK_VALID_MASK", "BLOCK_VALID_SCRIPTS", "BLOCK_HAVE_DATA", "BLOCK_HAVE_UNDO", "BLOCK_FAILED_MASK")}
    except OSError:
        pass
    try:
        txt = open(os.path.join(C.REPO, "src", "blockchain", "proto", "block.rs")).read()
        m = re.search(r"fn\s+get_base_reward\s*\(\s*(\w+)\s*:\s*u64\s*\)\s*->\s*u64\s*\{\s*\(([^)]+)\)\s*>>\s*\(\s*\1\s*/\s*([0-9_]+)\s*\)\s*\}", txt)
        if m:
            reward = (_eval_const(m.group(2), {}), _eval_const(m.group(3), {}))
    except (OSError, ValueError):
        pass
    return status, reward


def gen_consts():
    """Regenerates Rbp/Generated/Consts.lean from the binary just built (translator strand of the tie)."""
    p = C.run([C.IMPL, "verif-hook", "consts"], check=True)
    coins = []
    for line in p.stdout.decode().splitlines():
        t = line.split()
        if t and t[0] == "coin":
            coins.append(t[1:])
    out = ["/-! GENERATED on every check run from `rusty-blockparser verif-hook consts` (the binary built from /repo's", "    working tree).  Do not edit: theorems in Rbp.Props compare these values with the published ones. -/", "namespace Generated", "", "structure Coin where", "  cli : String", "  name : String", "  magic : Nat", "  version : Nat", "  genesis : String", "  auxpow : Option Nat", "deriving DecidableEq, Repr", "", "def coins : List Coin := ["]
    rows = []
    for (cli, name, magic, ver, gen, aux) in coins:
        rows.append('  ⟨"%s", "%s", %s, %s, "%s", %s⟩' % (cli, name, magic, ver, gen, "none" if aux == "-" else "some %s" % aux))
    out.append(",\n".join(rows))
    out.append("]")
    status, reward = source_consts()
    out.append("")
    out.append("/-- block-status constants read from the source text of src/blockchain/parser/index.rs (sorted by name) -/")
    out.append("def statusConsts : List (String × Nat) := [" + ", ".join('("%s", %d)' % (k, v) for k, v in sorted(status.items())) + "]")
    out.append("/-- `get_base_reward`: `(rewardBase) >> (height / halvingInterval)`, read from the source text of src/blockchain/proto/block.rs -/")
    out.append("def rewardBase : Nat := %d" % reward[0])
    out.append("def halvingInterval : Nat := %d" % reward[1])
    out.append("end Generated")
    text = "\n".join(out) + "\n"
    path = os.path.join(C.LEAN, "Rbp", "Generated", "Consts.lean")
    with C.Lock("lake"):
        old = open(path).read() if os.path.exists(path) else None
        if old != text:
            with open(path, "w") as f:
                f.write(text)
    return coins


def lake_build(targets):
    with C.Lock("lake"):
        p = C.run(["lake", "build"] + list(targets), cwd=C.LEAN)
    out = p.stdout.decode(errors="replace") + p.stderr.decode(errors="replace")
    return p.returncode == 0, out


def audit(namespace):
    """Returns (ok, [(theorem, [axioms])], raw) for every user theorem in `namespace` (module of the same name)."""
    os.makedirs(C.CACHE, exist_ok=True)
    src = os.path.join(C.CACHE, "audit_%s_%d.lean" % (namespace.replace(".", "_"), os.getpid()))
    with open(src, "w") as f:
        f.write("import Rbp.Audit\nimport %s\n#audit_ns %s\n" % (namespace, namespace))
    try:
        p = C.run(["lake", "env", "lean", src], cwd=C.LEAN)
    finally:
        os.unlink(src)
    out = p.stdout.decode(errors="replace")
    thms = []
    done = False
    for line in out.splitlines():
        m = re.match(r"THEOREM (\S+) AXIOMS ?(.*)$", line)
        if m:
            thms.append((m.group(1), [a for a in m.group(2).split(",") if a]))
        if line.startswith("AUDIT-DONE"):
            done = True
    return (p.returncode == 0 and done), thms, out + p.stderr.decode(errors="replace")


def grep_forbidden(files):
    """Textual audit of the Lean sources behind a property (comments stripped)."""
    bad = []
    pat = re.compile(r"\b(sorry|admit|native_decide|bv_decide|implemented_by|maxHeartbeats\s+0)\b|^\s*axiom\s|\bunsafe\s")
    for path in files:
        try:
            txt = open(path).read()
        except FileNotFoundError:
            continue
        txt = re.sub(r"/-.*?-/", "", txt, flags=re.S)
        for i, line in enumerate(txt.splitlines(), 1):
            line = line.split("--")[0]
            if pat.search(line):
                bad.append("%s:%d: %s" % (path, i, line.strip()))
    return bad


# ---- change-directed effort (DESIGN §2.4) --------------------------------------------------------------------------------
FINGERPRINTS = os.path.join(os.path.dirname(os.path.abspath(__file__)), "fingerprints.json")
# files every whole-program run executes, whatever the property's anchors name
PIPELINE = {"src/main.rs", "src/common/utils.rs", "src/blockchain/parser/mod.rs", "src/blockchain/parser/reader.rs", "src/blockchain/parser/index.rs",
            "src/blockchain/parser/chain.rs", "src/blockchain/parser/blkfile.rs", "src/blockchain/parser/types.rs", "src/blockchain/proto/block.rs",
            "src/blockchain/proto/tx.rs", "src/blockchain/proto/varuint.rs", "src/blockchain/proto/header.rs", "src/blockchain/proto/mod.rs",
            "src/blockchain/proto/script/mod.rs", "src/blockchain/proto/script/custom.rs", "src/callbacks/common.rs", "src/callbacks/mod.rs"}


def _normalise(text):
    """source text with line comments, block comments and all whitespace removed: a comment-only or formatting-only edit is not a change"""
    text = re.sub(r"/\*.*?\*/", "", text, flags=re.S)
    text = re.sub(r"//[^\n]*", "", text)
    return re.sub(r"\s+", "", text)


def source_fingerprints():
    import hashlib
    out = {}
    root = os.path.join(C.REPO, "src")
    for d, _dirs, files in os.walk(root):
        for f in files:
            if f.endswith(".rs") and f != "verif_hooks.rs":
                p = os.path.join(d, f)
                out[os.path.relpath(p, C.REPO)] = hashlib.sha256(_normalise(open(p, errors="replace").read()).encode()).hexdigest()
    return out


def changed_sources():
    """files of /repo's working tree whose normalised text differs from the tree the model was last reconciled with"""
    import json
    try:
        base = json.load(open(FINGERPRINTS))["files"]
    except (OSError, ValueError, KeyError):
        return None
    cur = source_fingerprints()
    return sorted(f for f in set(base) | set(cur) if base.get(f) != cur.get(f))


def effort_factor(prop):
    """(factor, changed files): x4 when a file the property is anchored in moved, x2 when only shared pipeline code moved"""
    import json
    ch = changed_sources()
    if not ch:
        return 1, ch or []
    anchors = set()
    for l in open(os.path.join(C.VERIF, "properties.jsonl")):
        pr = json.loads(l)
        if pr["id"] == prop:
            anchors = set(pr["anchors"]["files"])
    if anchors & set(ch):
        return 4, ch
    if PIPELINE & set(ch) or any(f not in PIPELINE and not f.startswith("src/callbacks/") for f in ch):
        return 2, ch
    return 1, ch


# ---- source-literal dictionary ------------------------------------------------------------------------------------------------
def source_literals():
    """every integer literal of /repo's sources (comments removed; `verif_hooks.rs` excluded): a change that special-cases a height, a
    size, a count or a version has to write that number somewhere"""
    out = set()
    root = os.path.join(C.REPO, "src")
    for d, _dirs, files in os.walk(root):
        for f in files:
            if not f.endswith(".rs") or f == "verif_hooks.rs":
                continue
            txt = open(os.path.join(d, f), errors="replace").read()
            txt = re.sub(r"/\*.*?\*/", "", txt, flags=re.S)
            txt = re.sub(r"//[^\n]*", "", txt)
            txt = re.sub(r'"(?:\\.|[^"\\])*"', '""', txt)          # string literals (hashes, messages) are not numbers of the code
            for m in re.finditer(r"(?<![A-Za-z0-9_.])(0x[0-9a-fA-F_]+|0b[01_]+|0o[0-7_]+|[0-9][0-9_]*)(?:[ui](?:8|16|32|64|128|size))?(?![A-Za-z0-9_.]|\.[0-9])", txt):
                s = m.group(1).replace("_", "")
                try:
                    v = int(s, 0) if s[:2] in ("0x", "0b", "0o") else int(s)
                except ValueError:
                    continue
                out.add(v)
            # shifts and products that spell a size: 1 << 16, 16 * 1024, 4 * 1024 * 1024
            for m in re.finditer(r"\b([0-9][0-9_]*)\s*<<\s*([0-9]{1,2})\b", txt):
                out.add(int(m.group(1).replace("_", "")) << int(m.group(2)))
            for m in re.finditer(r"\b([0-9][0-9_]*)((?:\s*\*\s*[0-9][0-9_]*){1,3})", txt):
                v = int(m.group(1).replace("_", ""))
                for x in re.findall(r"[0-9][0-9_]*", m.group(2)):
                    v *= int(x.replace("_", ""))
                out.add(v)
    return out


def new_literals(cap=24):
    """literals of the current tree that the reconciled tree did not contain (empty on the unchanged tree), most telling first"""
    import json
    try:
        base = set(json.load(open(FINGERPRINTS)).get("literals", []))
    except (OSError, ValueError):
        return []
    new = sorted(v for v in source_literals() - base if 9 <= v < (1 << 64))
    # prefer numbers that look like thresholds (not 2^k-1 masks of small width), keep a spread of magnitudes
    new.sort(key=lambda v: (v < 17, -len(str(v))))
    if len(new) <= cap:
        return new
    # more than the budget (a table of heights, say): a spread over the magnitudes, the smallest and the largest of each included
    groups = {}
    for v in new:
        groups.setdefault(len(str(v)), []).append(v)
    picked = []
    while len(picked) < cap and any(groups.values()):
        for k in sorted(groups, reverse=True):
            g = groups[k]
            if g and len(picked) < cap:
                picked.append(g.pop(0 if len(picked) % 2 == 0 else -1))
    return picked
