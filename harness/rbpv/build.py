"""Builds: the implementation from /repo's working tree (hooks on), generated constants, the Lean project."""
import os, re, subprocess, time
from . import common as C

RUSTFLAGS = "--cfg rbp_verif --check-cfg cfg(rbp_verif)"


class BuildError(Exception):
    pass


def build_impl():
    """cargo build (dev profile) of /repo's current working tree with the hooks compiled in."""
    with C.Lock("cargo"):
        env = {"RUSTFLAGS": RUSTFLAGS, "CARGO_TARGET_DIR": C.TARGET, "CARGO_NET_OFFLINE": "true"}
        p = C.run(["cargo", "build", "--offline", "--quiet"], env=env, cwd=C.REPO)
        if p.returncode != 0:
            raise BuildError("cargo build with hooks failed:\n" + p.stderr.decode(errors="replace")[-3000:])
    return C.IMPL


def gen_consts():
    """Regenerates Rbp/Generated/Consts.lean from the binary just built (translator strand of the tie)."""
    p = C.run([C.IMPL, "verif-hook", "consts"], check=True)
    coins = []
    for line in p.stdout.decode().splitlines():
        t = line.split()
        if t and t[0] == "coin":
            coins.append(t[1:])
    out = ["/-! GENERATED on every check run from `rusty-blockparser verif-hook consts` (the binary built from /repo's", "    working tree).  Do not edit: theorems in Rbp.Props compare these values with the published ones. -/", "namespace Generated", "", "structure Coin where", "  cli : String", "  name : String", "  magic : Nat", "  version : Nat", "  genesis : String", "  auxpow : Option Nat", "deriving DecidableEq, Repr", "", "def coins : List Coin := ["]
    rows = []
    for (cli, name, magic, ver, gen, aux) in coins:
        rows.append('  ⟨"%s", "%s", %s, %s, "%s", %s⟩' % (cli, name, magic, ver, gen, "none" if aux == "-" else "some %s" % aux))
    out.append(",\n".join(rows))
    out.append("]")
    out.append("end Generated")
    text = "\n".join(out) + "\n"
    path = os.path.join(C.LEAN, "Rbp", "Generated", "Consts.lean")
    with C.Lock("lake"):
        old = open(path).read() if os.path.exists(path) else None
        if old != text:
            with open(path, "w") as f:
                f.write(text)
    return coins


def lake_build(targets):
    with C.Lock("lake"):
        p = C.run(["lake", "build"] + list(targets), cwd=C.LEAN)
    out = p.stdout.decode(errors="replace") + p.stderr.decode(errors="replace")
    return p.returncode == 0, out


def audit(namespace):
    """Returns (ok, [(theorem, [axioms])], raw) for every user theorem in `namespace` (module of the same name)."""
    os.makedirs(C.CACHE, exist_ok=True)
    src = os.path.join(C.CACHE, "audit_%s_%d.lean" % (namespace.replace(".", "_"), os.getpid()))
    with open(src, "w") as f:
        f.write("import Rbp.Audit\nimport %s\n#audit_ns %s\n" % (namespace, namespace))
    try:
        p = C.run(["lake", "env", "lean", src], cwd=C.LEAN)
    finally:
        os.unlink(src)
    out = p.stdout.decode(errors="replace")
    thms = []
    done = False
    for line in out.splitlines():
        m = re.match(r"THEOREM (\S+) AXIOMS ?(.*)$", line)
        if m:
            thms.append((m.group(1), [a for a in m.group(2).split(",") if a]))
        if line.startswith("AUDIT-DONE"):
            done = True
    return (p.returncode == 0 and done), thms, out + p.stderr.decode(errors="replace")


def grep_forbidden(files):
    """Textual audit of the Lean sources behind a property (comments stripped)."""
    bad = []
    pat = re.compile(r"\b(sorry|admit|native_decide|bv_decide|implemented_by|maxHeartbeats\s+0)\b|^\s*axiom\s|\bunsafe\s")
    for path in files:
        try:
            txt = open(path).read()
        except FileNotFoundError:
            continue
        txt = re.sub(r"/-.*?-/", "", txt, flags=re.S)
        for i, line in enumerate(txt.splitlines(), 1):
            line = line.split("--")[0]
            if pat.search(line):
                bad.append("%s:%d: %s" % (path, i, line.strip()))
    return bad
