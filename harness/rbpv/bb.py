"""Black-box strand: run the real binary and the model on scenarios, compare chosen observables."""
import concurrent.futures as cf
import collections, os, re, shutil
from fractions import Fraction
from . import chain as K, common as C

POOL = int(os.environ.get("RBPV_JOBS", "12"))


def run_pairs(scns, shared_dirs=None, model=None):
    """runs every scenario on the implementation (in parallel) and on the model (one process).
    shared_dirs: optional {id(scn): datadir} to reuse an already written data directory."""
    def one(s):
        sd = shared_dirs.get(id(s)) if shared_dirs else None
        if sd is None:
            return s.run_impl()
        # LevelDB locks its directory: every run gets a private clone (hard-linked blk files, copied index)
        d = sd.clone()
        try:
            return s.run_impl(datadir=os.path.join(d, "data"))
        finally:
            C.rmtree(d)
    with cf.ThreadPoolExecutor(POOL) as ex:
        impl = list(ex.map(one, scns))
    if model is not None:
        return impl, model
    model = []
    # the model is fed in chunks to bound the size of one stdin stream
    chunk = 40
    for i in range(0, len(scns), chunk):
        model.extend(K.run_model(scns[i:i + chunk]))
    return impl, model


class SharedDir:
    """one data directory written once and used by several scenarios that differ only in options"""

    def __init__(self, scn):
        self.base = C.scratch()
        self.dir = os.path.join(self.base, "data")
        scn.write_dir(self.dir)

    def clone(self):
        d = C.scratch()
        dst = os.path.join(d, "data")
        os.makedirs(dst)
        for n in os.listdir(self.dir):
            p = os.path.join(self.dir, n)
            if os.path.isdir(p):
                shutil.copytree(p, os.path.join(dst, n))
            else:
                os.link(p, os.path.join(dst, n))
        return d

    def close(self):
        C.rmtree(self.base)


# ---- observables -----------------------------------------------------------------------------

def impl_heights(scn, res):
    """heights the implementation delivered, read from its own outputs"""
    if scn.callback == "csvdump":
        for n in res.final_files():
            if n.startswith("blocks-"):
                return [int(l.split(";")[1]) for l in res.rows(n)]
        return None
    if scn.callback == "opreturn":
        return None
    return None


def final_names(res):
    return sorted(res.final_files())


def cmp_exit(scn, res, m):
    return [] if res.exit == m["exit"] else [("exit", res.exit, m["exit"])]


def cmp_exit_class(scn, res, m):
    """success / failure only (a panic and an error exit are both failures)"""
    return [] if (res.exit == 0) == (m["exit"] == 0) else [("exit-class", res.exit, m["exit"])]


def cmp_errheight_if_reported(scn, res, m):
    if m["exit"] == 0 or res.err_height() is None:
        return []
    a = res.err_height()
    return [] if a == m.get("errheight") else [("error-height", a, m.get("errheight"))]


def cmp_names(scn, res, m):
    a, b = final_names(res), sorted(m["files"])
    return [] if a == b else [("file-names", a, b)]


def cmp_tmp(scn, res, m):
    if m["exit"] == 0 and res.tmp_files():
        return [("tmp-left", sorted(res.tmp_files()), [])]
    return []


def cmp_rows(scn, res, m, only=None):
    out = []
    unordered = scn.callback in ("unspentcsvdump", "balances")
    for n, lines in m["files"].items():
        if only and not n.startswith(only):
            continue
        if n not in res.files:
            out.append(("missing-file", None, n))
            continue
        il = res.rows(n)
        if unordered:
            ok = il[:1] == lines[:1] and sorted(il[1:]) == sorted(lines[1:])
        else:
            ok = il == lines
        if not ok:
            first = None
            if unordered:
                sa, sb = set(il[1:]), set(lines[1:])
                first = {"only_impl": sorted(sa - sb)[:3], "only_model": sorted(sb - sa)[:3], "header_impl": il[:1], "header_model": lines[:1]}
            else:
                for k, (x, y) in enumerate(zip(il, lines)):
                    if x != y:
                        first = {"line": k, "impl": x[:300], "model": y[:300]}
                        break
                if first is None:
                    first = {"len_impl": len(il), "len_model": len(lines)}
            out.append(("rows:" + n, first, None))
    return out


def cmp_heights_csv(scn, res, m):
    h = impl_heights(scn, res)
    if h is None:
        return []
    return [] if h == m["delivered"] else [("delivered-heights", h, m["delivered"])]


def cmp_processed(scn, res, m):
    if m["exit"] != 0:
        return []
    p = res.processed_up_to()
    exp = (scn.start + len(m["delivered"]) - 1) if (scn.start + len(m["delivered"])) > 0 else 0
    return [] if p == exp else [("processed-up-to", p, exp)]


def cmp_errheight(scn, res, m):
    if m["exit"] == 0:
        return []
    a = res.err_height()
    return [] if a == m.get("errheight") else [("error-height", a, m.get("errheight"))]


def cmp_totals(scn, res, m):
    if scn.callback not in ("csvdump", "unspentcsvdump") or m["exit"] != 0:
        return []
    t = res.totals()
    exp = tuple(int(x.split("=")[1]) for x in m["out"][:3])
    return [] if t == exp else [("totals", t, exp)]


def opreturn_expected(m):
    out = b""
    for l in m["out"]:
        head, _, data = l.rpartition("data: ")
        out += (head + "data: ").encode() + bytes.fromhex(data) + b"\n"
    return out


def cmp_opreturn(scn, res, m):
    a, b = res.plain_stdout(), opreturn_expected(m)
    if a == b:
        return []
    la, lb = a.split(b"\n"), b.split(b"\n")
    for k, (x, y) in enumerate(zip(la, lb)):
        if x != y:
            return [("opreturn-line", {"line": k, "impl": x[:200].hex(), "model": y[:200].hex()}, None)]
    return [("opreturn-lines", len(la), len(lb))]


def cmp_events(scn, res, m):
    a, b = res.events(), m["ev"]
    return [] if a == b else [("open-close-trace", a[:40], b[:40])]


def within(printed, q, decimals):
    """printed decimal string vs exact rational q: |p - q| <= half a unit of the last printed digit (+ relative slack for f64)"""
    try:
        p = Fraction(printed)
    except (ValueError, ZeroDivisionError):
        return False
    tol = Fraction(1, 2 * 10 ** decimals) + abs(q) * Fraction(1, 10 ** 12) + Fraction(1, 10 ** (decimals + 3))
    return abs(p - q) <= tol


def cmp_stats(scn, res, m):
    if m["exit"] != 0:
        return []         # no report is expected from a run that the model says fails (exit status is compared separately)
    st = res.stats()
    if st is None:
        return [("stats-report-missing", None, m["out"][:3])]
    d = {}
    types = {}
    shares = {}
    for l in m["out"]:
        if l.startswith("type "):
            _, n, c, h, txid = l.split()
            types[n] = (int(c), int(h), txid)
        elif l.startswith("share "):
            _, n, txt = l.split()
            shares[n] = txt
        else:
            k, _, v = l.partition("=")
            d[k] = v
    out = []
    def eq(name, a, b):
        if a != b:
            out.append(("stats:" + name, a, b))
    g = lambda k, i=0: (st[k][i] if st.get(k) else None)
    eq("blocks", g("blocks"), d["blocks"])
    eq("txs", g("txs"), d["txs"])
    eq("ins", g("ins"), d["ins"])
    eq("outs", g("outs"), d["outs"])
    eq("fees", g("fees", 1), d["fees"])
    eq("volume", g("volume", 1), d["volume"])
    bv, rest = d["bigval"].split("@")
    bh, bt = rest.split(":")
    eq("bigval", (g("bigval", 1), g("bigval", 2), g("bigval", 3)), (bv, bh, bt))
    bs, rest = d["bigsize"].split("@")
    bh, bt = rest.split(":")
    eq("bigsize", (g("bigsize", 0), g("bigsize", 1), g("bigsize", 2)), (bs, bh, bt))
    nb, ntx, nin, nout, vol = int(d["blocks"]), int(d["txs"]), int(d["ins"]), int(d["outs"]), int(d["volume"])
    ssum, scnt = (int(x) for x in d["sizesum"].split("/"))
    gsum, gcnt = (int(x) for x in d["gapsum"].split("/"))
    def mean(name, key, q, dec=2):
        if q is None:
            return
        if not within(g(key), q, dec):
            out.append(("stats:" + name, g(key), str(q)))
    mean("avg-block-size", "avg_size", Fraction(ssum, scnt) / 1024 if scnt else Fraction(0))
    mean("avg-time", "avg_time", Fraction(gsum, gcnt) / 60 if gcnt else Fraction(0))
    mean("avg-txs", "avg_txs", Fraction(ntx, nb) if nb else None)
    mean("avg-ins", "avg_ins", Fraction(nin, ntx) if ntx else None)
    mean("avg-outs", "avg_outs", Fraction(nout, ntx) if ntx else None)
    mean("avg-value", "avg_value", Fraction(vol, nout) / 10 ** 8 if nout else None)
    mean("fees-coins", "fees", Fraction(int(d["fees"]), 10 ** 8), 8)
    mean("volume-coins", "volume", Fraction(vol, 10 ** 8), 8)
    # the printed text of every floating-point figure = the model's exact binary64 + `{:.k}` rendering (F64), character for character
    for key, idx, mk in (("fees", 0, "f_fees"), ("volume", 0, "f_volume"), ("bigval", 0, "f_bigval"), ("avg_size", 0, "f_avg_size"), ("avg_time", 0, "f_avg_time"),
                         ("avg_txs", 0, "f_avg_txs"), ("avg_ins", 0, "f_avg_ins"), ("avg_outs", 0, "f_avg_outs"), ("avg_value", 0, "f_avg_value")):
        if mk in d:
            eq("text:" + key, g(key, idx), d[mk])
    it = {re.sub(r"\(.*\)", "", k): v for k, v in st["types"].items()}
    if {k: (v[0], v[2], v[3]) for k, v in it.items()} != types:
        out.append(("stats:type-table", {k: (v[0], v[2], v[3]) for k, v in sorted(it.items())}, dict(sorted(types.items()))))
    else:
        for k, v in it.items():
            if nout and not within(v[1], Fraction(types[k][0] * 100, nout), 2):
                out.append(("stats:type-share", (k, v[1]), str(Fraction(types[k][0] * 100, nout))))
            if k in shares and shares[k] != v[1]:
                out.append(("stats:text:type-share", (k, v[1]), shares[k]))
    return out


def describe(scn):
    return {"coin": scn.coin, "callback": scn.callback, "start": scn.start, "stop": scn.stop, "verify": scn.verify,
            "xorkey": None if scn.xorkey is None else scn.xorkey.hex(), "n_kv": len(scn.kvs),
            "files": {n: f["size"] for n, f in list(scn.files.items())[:8]}, "meta": scn.meta}


def scenario_dump(scn):
    """complete, replayable form of a scenario"""
    return {"coin": scn.coin, "callback": scn.callback, "start": scn.start, "stop": scn.stop, "verify": scn.verify,
            "xorkey": None if scn.xorkey is None else scn.xorkey.hex(), "verbose": scn.verbose, "threads": scn.threads,
            "kvs": [[k.hex(), v.hex()] for k, v in scn.kvs],
            "files": {n: {"size": f["size"], "segs": [[o, d.hex()] for o, d in f["segs"]]} for n, f in scn.files.items()},
            "extra_files": {n: d.hex() for n, d in scn.extra_files.items()}, "meta": scn.meta,
            "env": {k: ({n: d.hex() for n, d in v.items()} if k == "leftovers" else v) for k, v in scn.env.items()}}


def scenario_load(d):
    s = K.Scenario(d["coin"], d["callback"], d["start"], d["stop"], d["verify"])
    s.xorkey = None if d.get("xorkey") is None else bytes.fromhex(d["xorkey"])
    s.verbose, s.threads = d.get("verbose", 0), d.get("threads")
    s.kvs = [(bytes.fromhex(k), bytes.fromhex(v)) for k, v in d["kvs"]]
    s.files = {n: {"size": f["size"], "segs": [(o, bytes.fromhex(x)) for o, x in f["segs"]]} for n, f in d["files"].items()}
    s.extra_files = {n: bytes.fromhex(x) for n, x in d.get("extra_files", {}).items()}
    s.meta = d.get("meta", {})
    s.env = {k: ({n: bytes.fromhex(x) for n, x in v.items()} if k == "leftovers" else v) for k, v in d.get("env", {}).items()}
    return s


# ---- circumstances of a run -------------------------------------------------------------------
# Every property is stated over the data directory, the coin and the options; nothing in any of them lets the outcome depend on how
# loud the log is, on where the process was started, on how a path is spelt, on what stdout is attached to, on which filesystem the
# dump folder is on, on files that other runs left in the dump folder, or on blk files being reached through the symlinks that
# `resolve_path` supports.  A share of the scenarios of every family is therefore run a second time under one such circumstance and
# compared with the same model answer by the same comparators.

def _leftovers(s, r):
    """what an earlier run of ANOTHER callback (failed: .tmp files; successful: final names of another range) leaves in the folder"""
    other = {"csvdump": "unspent", "unspentcsvdump": "balances", "balances": "blocks"}.get(s.callback, "blocks")
    lo = {"%s.csv.tmp" % other: b"txid;indexOut;height;value;address\n" + b"ab" * 32 + b";0;1;5;x\n",
          "%s-%d-%d.csv" % (other, 7000 + r.randrange(100), 9000 + r.randrange(100)): b"left by an earlier run\n",
          "notes.txt": b"not ours\n"}
    if r.random() < 0.5:
        lo["tx_in.csv.tmp" if s.callback != "csvdump" else "balances.csv.tmp"] = b""
    return lo


ENV_KINDS = {
    "v":        lambda s, r: setattr(s, "verbose", 1) if s.verbose != 1 else setattr(s, "verbose", 2),
    "vv":       lambda s, r: setattr(s, "verbose", 2),
    "links":    lambda s, r: s.env.update(links=r.choice(["all", "alternate"])),
    "cwd":      lambda s, r: s.env.update(cwd=r.choice(["plain", "dot"])),
    "slash":    lambda s, r: s.env.update(slash=True),
    "tty":      lambda s, r: s.env.update(tty=True),
    "shm":      lambda s, r: s.env.update(shm=True),
    "leftovers": lambda s, r: s.env.update(leftovers=_leftovers(s, r)),
    # the same directory as a node with -blocksxor writes it (the model is asked again: xor.dat is part of the data directory)
    "xor":      lambda s, r: setattr(s, "xorkey", GC_xor_key(s, r)),
    "magic":    lambda s, r: foreign_magic(s, r),
    # the same options spelt differently (long names, =, attached values, order, +5 / 005, explicit defaults)
    "spelling": lambda s, r: s.env.update(spelling=r.randrange(1, 1 << 30)),
    # another size of the worker pool (every callback sees blocks one at a time, in order, whatever evaluates their transactions)
    "threads":  lambda s, r: setattr(s, "threads", r.choice([1, 2, 3, 64])),
    "environ":  lambda s, r: s.env.update(environ=r.choice([{"TMPDIR": "/nonexistent-tmp"}, {"RUST_LOG": "trace", "RUST_BACKTRACE": "1"}, {"LANG": "C", "LC_ALL": "C", "TZ": "Pacific/Kiritimati"}, {"HOME": "/nonexistent-home", "COLUMNS": "20", "TERM": "dumb", "NO_COLOR": "1"}])),
}
DUMPERS = ("csvdump", "unspentcsvdump", "balances")


def foreign_magic(s, r):
    """the same directory with the four bytes in front of every stored block replaced (another supported coin's magic, zeros, noise):
    the index names where a block's data starts, and nothing before the length field is ever read"""
    import struct
    pool = [m for c, m in K.MAGIC.items() if c != s.coin] + [0, 0xffffffff, r.randrange(1 << 32)]
    one = r.choice(pool) if r.random() < 0.6 else None
    files = {}
    for name, f in s.files.items():
        segs = []
        for off, data in f["segs"]:
            if (name, off) in s.block_at and len(data) >= 8:
                data = struct.pack("<I", one if one is not None else r.choice(pool)) + data[4:]
            segs.append((off, data))
        files[name] = {"size": f["size"], "segs": segs}
    s.files = files


def GC_xor_key(s, r):
    import struct
    from . import gen_chain as GC
    while True:
        k = GC.xor_key(r, struct.pack("<I", K.MAGIC[s.coin]))
        if any(k):
            return k


def env_kinds_for(s):
    ks = ["v", "vv", "links", "slash", "environ", "tty", "spelling", "threads"] + (["xor"] if s.xorkey is None else []) + (["magic"] if s.block_at else [])
    if s.callback in DUMPERS:
        ks += ["cwd", "shm", "leftovers"]
    else:
        ks += ["tty"]       # what these callbacks print IS their result
    return ks


def cmp_leftovers(scn, res, m):
    bad = getattr(res, "leftovers_damaged", [])
    return [("files-of-earlier-runs-changed", bad, [])] if bad else []


def env_sweep(ctx, family, scns, model, comparators, in_domain, share):
    import copy
    r = ctx.sub_rnd("env:" + family)
    ctx.env_total = getattr(ctx, "env_total", 0)
    if ctx.env_total < 45:
        share = max(share, 0.7)       # every property gets a few dozen such runs, however few scenarios its families have
    picked = []
    for s, m in zip(scns, model):
        if s.env or sum(len(d) for f in s.files.values() for _o, d in f["segs"]) > (1 << 21) or len(s.kvs) > 2000:
            continue
        if r.random() < share:
            picked.append((s, m))
    if not hasattr(ctx, "env_counter"):
        ctx.env_counter = collections.Counter()
    vs = []
    for s, m in picked:
        ks = env_kinds_for(s)
        kind = ks[(ctx.env_counter[s.callback] + ctx.seed) % len(ks)]
        ctx.env_counter[s.callback] += 1
        v = copy.copy(s)
        v.env, v.meta = dict(s.env), dict(s.meta, circumstance=kind)
        ENV_KINDS[kind](v, r)
        if kind == "xor" and r.random() < 0.5:
            v.env["links"] = "alternate"
        if kind in ("xor", "magic"):
            m = K.run_model([v])[0]
        vs.append((v, m, kind))
    if not vs:
        return
    ctx.env_total += len(vs)
    with cf.ThreadPoolExecutor(POOL) as ex:
        res = list(ex.map(lambda t: t[0].run_impl(), vs))
    for (v, m, kind), rr in zip(vs, res):
        if kind == "shm" and not K.other_filesystem():
            ctx.dist["env:shm:no-second-filesystem"] += 1
            continue
        diffs = []
        for c in list(comparators) + [cmp_leftovers]:
            diffs.extend(c(v, rr, m))
        ctx.families["circumstance:" + kind] += 1
        ctx.traces += 1
        if diffs:
            ctx.disagree("circumstance:" + kind, dict(describe(v), env={k: (sorted(x) if isinstance(x, dict) and k == "leftovers" else x) for k, x in v.env.items()}, verbose=v.verbose),
                         {"exit": rr.exit, "stderr": rr.stderr.decode(errors="replace")[-300:], "diffs": [list(map(str, d))[:3] for d in diffs[:5]]},
                         {"exit": m["exit"], "msg": m.get("msg"), "delivered": m["delivered"][:50]}, in_domain(v, m),
                         {"scenario": scenario_dump(v), "observable": diffs[0][0]})


def check(ctx, family, scns, comparators, shared_dirs=None, nontrivial=lambda s, m: True, in_domain=lambda s, m: True, env_share=None, model=None):
    impl, model = run_pairs(scns, shared_dirs, model)
    for s, r, m in zip(scns, impl, model):
        diffs = []
        for c in list(comparators) + ([cmp_leftovers] if s.env.get("leftovers") else []):
            diffs.extend(c(s, r, m))
        key = (family, s.coin, s.callback, s.start, s.stop, s.verify, s.xorkey, len(s.kvs), tuple(sorted((n, f["size"]) for n, f in s.files.items())), tuple(sorted(s.meta.items())) if all(isinstance(v, (int, str, bool, type(None))) for v in s.meta.values()) else id(s))
        ctx.mark(key, nontrivial(s, m))
        ctx.traces += 1
        ctx.families[family] += 1
        ctx.dist["callback=" + s.callback] += 1
        ctx.dist["coin=" + s.coin] += 1
        ctx.dist["model-exit=%d" % m["exit"]] += 1
        ctx.dist["delivered=%d" % len(m["delivered"])] += 1
        if diffs:
            ctx.disagree(family, describe(s), {"exit": r.exit, "stderr": r.stderr.decode(errors="replace")[-300:], "diffs": [list(map(str, d))[:3] for d in diffs[:5]]},
                         {"exit": m["exit"], "msg": m.get("msg"), "delivered": m["delivered"][:50]}, in_domain(s, m), {"scenario": scenario_dump(s) if sum(f["size"] for f in s.files.values()) < 200000 else None, "observable": diffs[0][0]})
        elif len(ctx.samples) < 5 and ctx.rnd.random() < 0.05:
            ctx.add_sample({"family": family, "scenario": describe(s), "impl_exit": r.exit, "model_exit": m["exit"], "delivered": m["delivered"][:20], "files": sorted(m["files"])})
    if not ctx.samples and scns:
        s, r, m = scns[0], impl[0], model[0]
        ctx.add_sample({"family": family, "scenario": describe(s), "impl_exit": r.exit, "model_exit": m["exit"], "delivered": m["delivered"][:20], "files": sorted(m["files"])})
    if family != "replay" and not family.startswith("literal:"):
        env_sweep(ctx, family, scns, model, comparators, in_domain, env_share if env_share is not None else getattr(ctx, "env_share", 0.35))
    return impl, model


def replay_scenario(ctx, rep, comparators):
    d = rep.get("failing_input", rep)
    sd = d.get("scenario")
    if not sd:
        ctx.notes.append("replay file carries no scenario")
        return
    s = scenario_load(sd)
    check(ctx, "replay", [s], comparators)


def comparators_for(cb):
    c = [cmp_exit, cmp_names]
    if cb in ("csvdump", "unspentcsvdump", "balances"):
        c += [cmp_rows, cmp_totals] if cb != "balances" else [cmp_rows]
    elif cb == "opreturn":
        c.append(cmp_opreturn)
    else:
        c.append(cmp_stats)
    return c


def literal_family(ctx, callbacks, coins=("bitcoin", "litecoin"), verify=False):
    """literal-directed effort: for every integer literal that is NEW in /repo's sources (none on the unchanged tree), whole-program runs
    on chains built around it (gen_chain.literal_chain) are compared with the model like any other scenario"""
    from . import build as B, gen_chain as GC
    lits = B.new_literals()
    if not lits:
        return
    ctx.notes.append("literal-directed scenarios for new source literals: %s" % lits)
    r = ctx.sub_rnd("literals")
    for L in lits:
        for variant in (0, 1, 2, 3):
            if variant == 1 and L > 70000:
                continue
            if variant == 3 and L >= (1 << 40):
                continue
            for cb in callbacks:
                coin = coins[(variant + len(cb)) % len(coins)]
                try:
                    blocks, first = GC.literal_chain(r, coin, L, variant)
                except Exception as e:      # a literal no chain can be built around
                    ctx.notes.append("literal %d: %r" % (L, e))
                    continue
                s = K.Scenario(coin=coin, callback=cb)
                GC.simple_layout(s, blocks, first_height=first)
                s.start = first
                if verify and first > 0:
                    # a verified run looks its first block's predecessor up in the index: start one above the first indexed height
                    s.verify, s.start = True, first + 1
                s.meta = {"literal": L, "variant": variant}
                check(ctx, "literal:%d" % L, [s], comparators_for(cb), nontrivial=lambda s, m: True)


# ---- scale ---------------------------------------------------------------------------------------
# (callback, coin, options) per property: long chains through the property's own callbacks.  Thresholds a change may hide behind: 2^8 / 2^12 /
# 2^14 / 2^16 blocks, transactions, distinct scripts or unspent outputs; hundreds of blk files open or revisited; 4 / 16 MiB of rows.
def _zigzag(i):
    """file order 0 1 0 2 1 3 2 4 3 ...: the chain comes back to the previous file once after entering the next"""
    return 0 if i == 0 else ((i + 1) // 2 if i % 2 == 1 else i // 2 - 1)


SCALE = {
    "C01": [("csvdump", "bitcoin", dict(n=2600, per_file=500, txs_per_block=3)), ("csvdump", "litecoin", dict(n=1200, txs_per_block=30, spend_every=2))],
    "C02": [("csvdump", "bitcoin", dict(n=2600, start=1300, stop=2100)), ("simplestats", "litecoin", dict(n=2600, start=257, stop=2304)), ("opreturn", "bitcoin", dict(n=2600, stop=2047)),
            ("csvdump", "bitcoin", dict(n=1300, per_file=1)), ("simplestats", "bitcoin", dict(n=17000, per_file=1000, start=5, stop=16500))],
    "C03": [("csvdump", "bitcoin", dict(n=1500, per_file=1)), ("csvdump", "testnet3", dict(n=2600, per_file=37, pad=9)), ("csvdump", "bitcoin", dict(n=900, interleave=300, xor=True)),
            ("csvdump", "litecoin", dict(n=800, zigzag=True))],
    "C04": [("csvdump", "bitcoin", dict(n=2600, per_file=300)), ("csvdump", "bitcoin", dict(n=2400, zigzag=True)), ("csvdump", "litecoin", dict(n=900, interleave=300))],
    "C05": [("csvdump", "bitcoin", dict(n=1200, txs_per_block=62, addresses=70000))],
    "C06": [("csvdump", "litecoin", dict(n=1200, txs_per_block=62, addresses=70000))],
    "C07": [("unspentcsvdump", "bitcoin", dict(n=2600, addresses=3000, spend_every=3)), ("unspentcsvdump", "dogecoin", dict(n=1200, txs_per_block=62, addresses=70000))],
    "C08": [("balances", "bitcoin", dict(n=2600, addresses=3000, spend_every=3)), ("balances", "litecoin", dict(n=1200, txs_per_block=62, addresses=70000))],
    "C09": [("csvdump", "bitcoin", dict(n=2600, verify=True, start=1)), ("balances", "litecoin", dict(n=1500, verify=True, start=1, txs_per_block=9)),
            ("simplestats", "bitcoin", dict(n=17000, verify=True, start=1, per_file=2000))],
    "C10": [("csvdump", "bitcoin", dict(n=2600)), ("unspentcsvdump", "bitcoin", dict(n=2600)), ("balances", "bitcoin", dict(n=2600))],
    "C11": [("csvdump", "bitcoin", dict(n=2600, xor=True, per_file=700)), ("simplestats", "litecoin", dict(n=1500, xor=True)), ("csvdump", "bitcoin", dict(n=900, interleave=300, xor=True)),
            ("balances", "litecoin", dict(n=800, zigzag=True, xor=True))],
    "C12": [("csvdump", "namecoin", dict(n=1300, auxpow=True)), ("simplestats", "dogecoin", dict(n=1300, auxpow=True))],
    "C13": [("simplestats", "bitcoin", dict(n=2600, threads=3)), ("balances", "bitcoin", dict(n=2600, threads=64, addresses=3000)), ("balances", "litecoin", dict(n=1200, txs_per_block=62, addresses=500, threads=2))],
    "C14": [("opreturn", "litecoin", dict(n=1500)), ("csvdump", "namecoin", dict(n=1500))],
    "C15": [("simplestats", "bitcoin", dict(n=2600, txs_per_block=3)), ("simplestats", "dogecoin", dict(n=1200, txs_per_block=60, spend_every=2)), ("simplestats", "litecoin", dict(n=17000, per_file=3000, growing=True))],
    "C16": [("opreturn", "bitcoin", dict(n=2600)), ("opreturn", "dogecoin", dict(n=2600, per_file=100))],
    "C17": [("csvdump", "bitcoin", dict(n=1500, per_file=1, verbose=1)), ("balances", "bitcoin", dict(n=2600, per_file=2, verbose=1)), ("csvdump", "bitcoin", dict(n=1200, per_file=3, verbose=1, verify=True, start=1)),
            ("simplestats", "bitcoin", dict(n=17000, per_file=100, verbose=1)), ("csvdump", "litecoin", dict(n=900, interleave=300, verbose=1)), ("csvdump", "bitcoin", dict(n=2400, zigzag=True, verbose=1))],
}


def scale_family(ctx, prop):
    """what only shows at scale: thousands of blocks, hundreds or thousands of blk files (one block each; interleaved so that hundreds
    are open at once and each is revisited; zig-zag so that every file is re-entered once), tens of thousands of transactions, distinct
    scripts and unspent outputs, running sums past 2^53 and 2^63, outputs spent thousands of blocks later — through the property's own
    callbacks, against the model, and under a soft limit on open descriptors of (the most blk files the model has open at once) + 64:
    the bounded number of open files is a promise, so a run must fit"""
    from . import gen_chain as GC
    r = ctx.sub_rnd("scale")
    for k, (cb, coin, o) in enumerate(SCALE.get(prop, [])):
        o = dict(o)
        n = o.pop("n")
        big = n >= 10000
        if big and not ctx.thorough():
            # the quick tier stops at 4 200 blocks (past 2^12); 17 000 (past 2^14) is for the thorough tier — the model's index loading is
            # quadratic in the number of records
            n = 4200
            if "stop" in o:
                o["stop"] = 4150
        elif not big:
            n *= (4 if ctx.thorough() else 1)
        per_file, inter, zig = o.pop("per_file", None), o.pop("interleave", None), o.pop("zigzag", False)
        if per_file == 1 or zig:
            n = min(n, 4000)
        if inter:
            n = min(n, 3 * inter)
        blocks = GC.long_chain(r, coin, n, addresses=o.pop("addresses", 60), txs_per_block=o.pop("txs_per_block", 1), spend_every=o.pop("spend_every", 5), auxpow=o.pop("auxpow", False), growing=o.pop("growing", False))
        s = K.Scenario(coin=coin, callback=cb)
        GC.simple_layout(s, blocks, per_file=per_file, pad=o.pop("pad", 5), file_of=(lambda i: i % inter) if inter else (_zigzag if zig else None))
        s.start, s.stop, s.verify = o.pop("start", 0), o.pop("stop", None), o.pop("verify", False)
        if s.stop is not None and ctx.thorough() and not big:
            s.start, s.stop = s.start * 4, s.stop * 4
        s.verbose, s.threads = o.pop("verbose", 0), o.pop("threads", None)
        if o.pop("xor", False):
            s.xorkey = GC.xor_key(r)
            while not any(s.xorkey):
                s.xorkey = GC.xor_key(r)
        s.meta = {"scale": n, "k": k, "layout": "interleave-%d" % inter if inter else ("zigzag" if zig else "per-file-%s" % per_file)}
        m = K.run_model([s])[0]
        open_now = peak = 0
        for kind, _f in m["ev"]:
            open_now += 1 if kind == "open" else -1
            peak = max(peak, open_now)
        s.env["nofile"] = peak + 64
        s.meta["nofile"] = peak + 64
        cmps = comparators_for(cb) + ([cmp_events] if s.verbose == 1 else [])
        check(ctx, "scale:%s" % cb, [s], cmps, env_share=0.0, nontrivial=lambda s, m: True, model=[m])
