#!/usr/bin/env python3
"""Pre-screening of a seeded change WITHOUT touching /repo: the patch is applied to a scratch git worktree of /repo's HEAD and the
checks are run against it (RBP_REPO).  Used only while a long job is reading /repo; the recorded trial of every seed is still
tools/try_seed.py (git -C /repo apply ... checkout).  usage: try_seed_wt.py <patch.diff> <Cxx> [Cyy ...]"""
import subprocess, sys, os, json, shutil
VERIF = os.path.dirname(os.path.dirname(os.path.abspath(__file__)))
WT = "/tmp/seedwt"


def sh(cmd, **kw):
    return subprocess.run(cmd, shell=True, stdout=subprocess.PIPE, stderr=subprocess.STDOUT, text=True, **kw)


def main():
    patch, props = sys.argv[1], sys.argv[2:]
    sh("git -C /repo worktree remove --force %s" % WT)
    shutil.rmtree(WT, ignore_errors=True)
    r = sh("git -C /repo worktree add -q --detach %s HEAD && git -C %s apply %s" % (WT, WT, patch))
    if r.returncode != 0:
        print("cannot prepare the worktree:\n" + r.stdout)
        return 2
    try:
        for p in props:
            r = sh("python3 %s/harness/check.py %s --tier quick" % (VERIF, p), cwd=VERIF, env=dict(os.environ, RBP_REPO=WT))
            lines = [l for l in r.stdout.splitlines() if l.startswith(("VIOLATION", "OK ", "KNOWN-FINDING"))]
            detail = [l for l in r.stdout.splitlines() if l.startswith("  ")]
            print(p, r.returncode, "|".join(lines)[:200], "|", " ".join(detail[:1])[:160])
    finally:
        sh("git -C /repo worktree remove --force %s" % WT)
        shutil.rmtree(WT, ignore_errors=True)
    return 0


if __name__ == "__main__":
    sys.exit(main())
