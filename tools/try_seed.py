#!/usr/bin/env python3
"""Applies a seeded change to /repo, runs the named checks, and ALWAYS restores /repo.
usage: try_seed.py <patch.diff> <Cxx> [Cyy ...] [--tier quick|thorough]"""
import subprocess, sys, os, json, time
REPO = "/repo"
VERIF = os.path.dirname(os.path.dirname(os.path.abspath(__file__)))


def sh(cmd, **kw):
    return subprocess.run(cmd, shell=True, stdout=subprocess.PIPE, stderr=subprocess.STDOUT, text=True, **kw)


def main():
    args = [a for a in sys.argv[1:] if not a.startswith("--")]
    tier = "quick"
    if "--tier" in sys.argv:
        tier = sys.argv[sys.argv.index("--tier") + 1]
        args = [a for a in args if a != tier]
    patch, props = args[0], args[1:]
    if sh("git -C %s status --porcelain" % REPO).stdout.strip():
        print("refusing: /repo has uncommitted changes")
        return 2
    r = sh("git -C %s apply --check %s && git -C %s apply %s" % (REPO, patch, REPO, patch))
    if r.returncode != 0:
        print("patch does not apply:\n" + r.stdout)
        return 2
    out = {}
    try:
        for p in props:
            t0 = time.time()
            r = sh("python3 %s/harness/check.py %s --tier %s" % (VERIF, p, tier), cwd=VERIF)
            lines = [l for l in r.stdout.splitlines() if l.startswith(("VIOLATION", "OK ", "KNOWN-FINDING"))]
            detail = [l for l in r.stdout.splitlines() if l.startswith("  ")]
            out[p] = {"rc": r.returncode, "lines": lines, "detail": detail[:3], "wall": round(time.time() - t0, 1)}
            print(p, r.returncode, "|".join(lines)[:300], "|", " ".join(detail[:1])[:200])
            if r.returncode != 0:
                for l in lines:
                    if "replay=" in l:
                        rp = l.split("replay=")[1].split()[0]
                        try:
                            d = json.load(open(rp))
                            fi = d.get("failing_input", {})
                            print("     family:", fi.get("family"), "| observable:", fi.get("observable"), "| request:", str(fi.get("shrunk_request") or fi.get("request"))[:260])
                            print("     impl:", str(fi.get("impl"))[:260])
                            print("     model:", str(fi.get("model"))[:200])
                        except Exception as e:
                            print("     (replay unreadable: %r)" % e)
    finally:
        sh("git -C %s checkout -- . && git -C %s clean -fdq src" % (REPO, REPO))
        # rebuild the unchanged tree so the cache is back in its normal state
        sh("python3 %s/harness/check.py --setup" % VERIF, cwd=VERIF)
    print(json.dumps(out))
    return 0


if __name__ == "__main__":
    sys.exit(main())
