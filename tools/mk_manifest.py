#!/usr/bin/env python3
"""Writes /verif/MANIFEST.json from the table below (kept as a script so the file stays valid and consistent)."""
import json, os, sys
HERE = os.path.dirname(os.path.dirname(os.path.abspath(__file__)))

NOTE = ("Trusted base: Lean 4.33.0 kernel; axioms per theorem limited to propext/Classical.choice/Quot.sound (audited each run); "
        "hand-written Lean model tied to /repo by the correspondence check of the same run (guarded hook calling the real functions "
        "in-process and black-box runs of the real binary built from the working tree, dev profile); python harness and generators; "
        "third-party crates (rusty-leveldb, seek_bufread, std BufWriter/rename, rayon, clap, rust-bitcoin) are modelled, not verified.")

# id -> (technique, level text, design ref, extra note)
CLAIMED = {}

PENDING_REASON = "check not built yet in this round; planned at level proof (DESIGN.md §6)"


def load_claims():
    p = os.path.join(HERE, "tools", "claims.json")
    return json.load(open(p)) if os.path.exists(p) else {}


def main():
    claims = load_claims()
    checks = []
    for pid in sorted(claims):
        c = claims[pid]
        checks.append({
            "property_id": pid,
            "quick_cmd": "python3 harness/check.py %s --tier quick" % pid,
            "thorough_cmd": "python3 harness/check.py %s --tier thorough" % pid,
            "evidence_file": "/verif/evidence/%s.json" % pid,
            "replay_cmd_template": "python3 harness/check.py %s --replay {path}" % pid,
            "engine": "rbp-lean",
            "level_claimed": {"category": "proof", "text": c["text"], "design_ref": c.get("design_ref", "DESIGN.md §6 " + pid)},
            "level_note": NOTE + (" " + c["note"] if c.get("note") else ""),
            "technique": c["technique"],
        })
    na = [{"property_id": "C%02d" % i, "reason": PENDING_REASON} for i in range(1, 18) if "C%02d" % i not in claims]
    m = {
        "version": 1,
        "setup_cmd": "python3 harness/check.py --setup",
        "hooks": {
            "guard": "rbp_verif",
            "enable": "RUSTFLAGS='--cfg rbp_verif --check-cfg cfg(rbp_verif)' CARGO_TARGET_DIR=/verif/.cache/target cargo build --offline   (run by harness/rbpv/build.py from /repo's working tree)",
            "baseline_off_cmd": "cd /repo && cargo test --workspace --no-fail-fast --offline",
            "source_commits": json.load(open(os.path.join(HERE, "tools", "hook_commits.json"))),
            "add_only": True,
        },
        "engines": [{
            "name": "rbp-lean",
            "path": "/verif/lean",
            "serves_properties": sorted(claims),
            "kind_free_text": "Lean 4 model + theorems (lake project Rbp), compiled model driver rbp-model, python correspondence harness /verif/harness/check.py",
        }],
        "checks": checks,
        "not_applicable": na,
        "notes": "All checks share one skeleton (DESIGN.md §2.2): build /repo with hooks, regenerate constants, lake build + axiom audit of the property's theorem namespace, corpus replay, seeded correspondence between the real code and the compiled Lean model, verdict. Known findings: /verif/known_findings.json.",
    }
    with open(os.path.join(HERE, "MANIFEST.json"), "w") as f:
        json.dump(m, f, indent=1)
    print("MANIFEST.json: %d claimed, %d not_applicable" % (len(checks), len(na)))


if __name__ == "__main__":
    main()
