#!/usr/bin/env python3
"""file_seed3.py <Cxx> <A|B> <n> <change> <needs> <detected_by> [ran]: files a confirmed round-3 seed under seeded/<Cxx>-<n>/"""
import sys, os, json, shutil
HERE = os.path.dirname(os.path.dirname(os.path.abspath(__file__)))
pid, sub, n, change, needs, det = sys.argv[1:7]
ran = sys.argv[7] if len(sys.argv) > 7 else "python3 tools/try_seed.py seeded/%s-%s/patch.diff %s" % (pid, n, pid)
src = "/tmp/%s-%s-out/%s" % (os.environ.get("ROUND", "r3"), pid, sub)
dst = os.path.join(HERE, "seeded", "%s-%s" % (pid, n))
if os.path.exists(dst):
    shutil.rmtree(dst)
os.makedirs(dst)
shutil.copy(os.path.join(src, "patch.diff"), dst)
shutil.copy(os.path.join(src, "README.md"), dst)
shutil.copytree(os.path.join(src, "demo"), os.path.join(dst, "demo"))
json.dump({"property": pid, "change": change, "needs_to_manifest": needs,
           "author": "independent sub-agent (round %s)" % os.environ.get("ROUND", "r3")[1:] + " given only the property text and a scratch worktree",
           "confirmed": "tools/confirm_seed3.sh %s %s: 41/41 tests pass with the change; demo/run.sh exits non-zero with the change and 0 without" % (pid, sub),
           "detected_by": det, "ran": ran}, open(os.path.join(dst, "meta.json"), "w"), indent=1)
print("filed", dst)
