#!/bin/bash
# confirm_seed3.sh <Cxx> <A|B>: re-verifies a round-3 sub-agent change in its scratch worktree /tmp/r3-Cxx (deliverables in /tmp/r3-Cxx-out/<A|B>)
ID=$1; SUB=$2; R=${ROUND:-r3}; WT=/tmp/$R-$ID; OUT=/tmp/$R-$ID-out/$SUB
export CARGO_NET_OFFLINE=true
cd $WT || exit 2
git -C $WT checkout -q -- . ; git -C $WT clean -fdq src
git -C $WT apply $OUT/patch.diff || { echo "patch does not apply"; exit 2; }
TESTS=$(cargo test --workspace --no-fail-fast --offline 2>&1 | grep 'test result' | head -1)
echo "suite with change: $TESTS"
bash $OUT/demo/run.sh $WT > $OUT/demo_with.log 2>&1; RC1=$?
git -C $WT checkout -q -- . ; git -C $WT clean -fdq src
bash $OUT/demo/run.sh $WT > $OUT/demo_without.log 2>&1; RC0=$?
git -C $WT checkout -q -- . ; git -C $WT clean -fdq src
echo "demo with change rc=$RC1 ; without rc=$RC0"
if echo "$TESTS" | grep -q '41 passed; 0 failed' && [ $RC1 -ne 0 ] && [ $RC0 -eq 0 ]; then echo CONFIRMED; exit 0; else echo NOT-CONFIRMED; exit 1; fi
