#!/bin/bash
# try_harmless.sh <name> <patch.diff> <Cxx ...>: runs the named quick checks against a scratch worktree of /repo's HEAD with a
# behaviour-preserving patch applied (RBP_REPO); every line must be OK.  One at a time (see DESIGN, Correction 11).
NAME=$1; PATCH=$2; shift 2; WT=/tmp/hw-$NAME
cd /verif
git -C /repo worktree remove --force $WT 2>/dev/null; rm -rf $WT
git -C /repo worktree add -q --detach $WT HEAD && git -C $WT apply $PATCH || { echo "$NAME: patch does not apply"; exit 2; }
for c in "$@"; do
  L=$(RBP_REPO=$WT python3 harness/check.py $c --tier quick 2>&1 | grep "^OK \|^VIOLATION\|^  " | head -2 | tr '\n' ' ' | cut -c1-260)
  echo "$NAME $c $L"
done
git -C /repo worktree remove --force $WT; rm -rf $WT
