#!/usr/bin/env python3
"""Rewrites the seeded-changes table of DESIGN.md (between the BEGIN/END markers) from seeded/*/meta.json."""
import json, os, glob, re
HERE = os.path.dirname(os.path.dirname(os.path.abspath(__file__)))
rows = ["| seed | breaks | change | needs to manifest | caught by |", "|---|---|---|---|---|"]
def order(d):
    b = os.path.basename(d)
    return (b.split("-")[0], int(b.split("-")[1]))
for d in sorted(glob.glob(os.path.join(HERE, "seeded", "C[0-9][0-9]-*")), key=order):
    m = json.load(open(os.path.join(d, "meta.json")))
    esc = lambda t: str(t).replace("|", "\\|").replace("\n", " ")
    rows.append("| %s | %s | %s | %s | %s |" % (os.path.basename(d), m["property"], esc(m["change"]), esc(m["needs_to_manifest"]), esc(m["detected_by"])))
table = "<!-- SEEDED-BEGIN -->\n" + "\n".join(rows) + "\n<!-- SEEDED-END -->"
p = os.path.join(HERE, "DESIGN.md")
s = open(p).read()
if "SEEDED_TABLE_PLACEHOLDER" in s:
    s = s.replace("SEEDED_TABLE_PLACEHOLDER", table)
else:
    s = re.sub(r"<!-- SEEDED-BEGIN -->.*?<!-- SEEDED-END -->", lambda _: table, s, flags=re.S)
open(p, "w").write(s)
print(len(rows) - 2, "seeds listed")
