#!/bin/bash
# batch_seed3.sh Cxx[:Cyy,Czz] ... : confirm + try both A and B of each named property; extra checks after the colon
cd /verif
for spec in "$@"; do
  ID=${spec%%:*}; EXTRA=""; [[ "$spec" == *:* ]] && EXTRA=$(echo ${spec#*:} | tr ',' ' ')
  for S in A B; do
    echo "=== $ID $S"
    bash tools/confirm_seed3.sh $ID $S 2>&1 | tail -3
    python3 tools/try_seed.py /tmp/${ROUND:-r3}-$ID-out/$S/patch.diff $ID $EXTRA 2>&1 | grep -v '^{' | cut -c1-600
  done
done
