#!/usr/bin/env python3
"""mk_fingerprints.py: records the normalised source hashes of /repo's CURRENT working tree as the tree the model is reconciled with.
Run it only after the model and the checks have been brought in line with that tree (all 17 checks green)."""
import json, os, subprocess, sys
sys.path.insert(0, os.path.join(os.path.dirname(os.path.dirname(os.path.abspath(__file__))), "harness"))
from rbpv import build as B, common as C
head = subprocess.run(["git", "-C", C.REPO, "rev-parse", "HEAD"], capture_output=True, text=True).stdout.strip()
json.dump({"reconciled_with": head, "normalisation": "comments and whitespace removed; src/verif_hooks.rs excluded", "files": B.source_fingerprints(), "literals": sorted(B.source_literals())},
          open(B.FINGERPRINTS, "w"), indent=1, sort_keys=True)
print("fingerprints of", len(B.source_fingerprints()), "files at", head)
